#!/bin/bash
# usage: seedregress.sh <scratch-worktree> [dir-pattern]   -- apply every kept seeded change in turn to a scratch worktree of
# /repo (never /repo itself) and run the registered quick check against it; writes seeded/REGRESSION.md
wt=$1; pat=${2:-C}
cd /verif || exit 2
out=/verif/seeded/REGRESSION.md
echo "# Seeded changes vs. the registered quick checks ($(date -u +%Y-%m-%dT%H:%MZ), repo $(git -C /repo rev-parse --short HEAD), verif $(git rev-parse --short HEAD))" > $out
echo >> $out; echo "| seeded change | result |" >> $out; echo "|---|---|" >> $out
for d in seeded/${pat}*/; do
  sd=$(basename $d); id=${sd%%-*}
  [ -f $d/patch.diff ] || continue
  git -C $wt checkout -- . 2>/dev/null
  if ! git -C $wt apply /verif/$d/patch.diff 2>/dev/null; then echo "| $sd | patch no longer applies (the repository was repaired at that site) |" >> $out; continue; fi
  extra=""
  [ "$sd" = "C14-wave2" ] && extra="VERIF_RUNS=12000 VERIF_WALL_S=900"
  res=$(env VERIF_REPO=$wt VERIF_MIN_S=5 $extra ./vcheck $id quick 2>&1 | grep "^VIOLATION\|^OK\|infrastructure" | head -1 | cut -c1-150)
  v=$(env true; grep -h "^violation:" /dev/null)
  echo "| $sd | ${res:-no result} |" >> $out
  git -C $wt checkout -- . 2>/dev/null
done
cat $out
