// Package pam is a pure-Go stand-in for github.com/msteinert/pam, whose cgo header
// (security/pam_appl.h) is absent in this sandbox. PAM login is on no path that any
// property exercises; every call fails.
package pam

import "errors"

type Style int

const (
	PromptEchoOff Style = iota + 1
	PromptEchoOn
	ErrorMsg
	TextInfo
)

type Item int

const (
	Service Item = iota + 1
	User
)

type Flags int

const DisallowNullAuthtok Flags = 1

type Transaction struct{}

var errStub = errors.New("pam: not available in the verification build")

func StartFunc(service, user string, handler func(Style, string) (string, error)) (*Transaction, error) {
	return nil, errStub
}
func (t *Transaction) Authenticate(f Flags) error     { return errStub }
func (t *Transaction) GetItem(i Item) (string, error) { return "", errStub }
