#!/bin/bash
# usage: seedcheck.sh <seed-id> <worktree> <Cxx> [<Cxx>...]   -- confirm a seeded change and run checks against it
# (the worktree has the patch applied and SEED/{patch.diff,demo.sh,meta.json})
id=$1; wt=$2; shift 2
export GOFLAGS=-mod=mod GOPROXY=off GOSUMDB=off
cd $wt || exit 2
echo "== $id: files changed: $(git diff --stat | tail -1)"
git diff --quiet && { echo "patch not applied"; exit 2; }
diff <(git diff) SEED/patch.diff >/dev/null && echo "patch.diff == working tree diff" || echo "NOTE: patch.diff differs from working tree diff"
echo "-- demo WITH patch (expect failure)"; (timeout 600 sh SEED/demo.sh >/tmp/seed-$id-with.log 2>&1; echo "exit=$?")
git diff > /tmp/seed-$id.diff; git apply -R /tmp/seed-$id.diff
echo "-- demo WITHOUT patch (expect success)"; (timeout 600 sh SEED/demo.sh >/tmp/seed-$id-without.log 2>&1; echo "exit=$?")
git apply /tmp/seed-$id.diff
git status --short | grep -v '^??' | head
for p in "$@"; do
  echo "-- vcheck $p against the seeded tree"
  (cd /verif && VERIF_REPO=$wt VERIF_MIN_S=${VERIF_MIN_S:-30} ./vcheck $p quick 2>&1 | grep -v "^\s\|KNOWN-FINDING" | cut -c1-400 | tail -3)
done
