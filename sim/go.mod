module verif.local/vsim

go 1.26
