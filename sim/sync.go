package vsim

import (
	"fmt"
	"sync"
)

// Mutex replaces sync.Mutex in instrumented code (rule R1). Every acquisition is a
// parked point: there is deliberately no uncontended fast path, so which of two tasks
// gets a free lock is always a recorded scheduler decision.
type Mutex struct {
	real sync.Mutex // used when no simulation is active
	held bool
	name string
}

func simCaller() (*World, bool) {
	w := Cur()
	if w == nil {
		return nil, false
	}
	if w.isRoot() {
		return w, true
	}
	if w.current() == nil {
		// plain goroutine inside a simulation: treat like a task keyed by the lock (rare)
		return w, true
	}
	return w, true
}

func (m *Mutex) Lock() {
	w, ok := simCaller()
	if !ok {
		m.real.Lock()
		return
	}
	w.park(&entry{kind: "lock", resObj: &m.name, lock: m,
		grantable: func() bool { return !m.held },
		onGrant:   func() any { m.held = true; return nil }})
}

func (m *Mutex) Unlock() {
	w, ok := simCaller()
	if !ok {
		m.real.Unlock()
		return
	}
	w.mu.Lock()
	if !m.held {
		w.mu.Unlock()
		panic("vsim: unlock of unlocked Mutex")
	}
	m.held = false
	w.mu.Unlock()
	w.pokeRoot()
}

// TryLock is used by harness code only.
func (m *Mutex) TryLock() bool {
	w, ok := simCaller()
	if !ok {
		return m.real.TryLock()
	}
	w.mu.Lock()
	defer w.mu.Unlock()
	if m.held {
		return false
	}
	m.held = true
	return true
}

// RWMutex reproduces Go's two-stage protocol: writers queue on an inner mutex; the one
// holding it is "announced", blocks new readers and waits for active readers to drain;
// readers that queued behind it are all admitted when it unlocks, before the next
// writer can be announced.
type RWMutex struct {
	real      sync.RWMutex
	announced bool // a writer holds the inner mutex (pending or active)
	active    bool // ... and has the lock
	readers   int  // active + admitted readers
	name      string
}

func (m *RWMutex) Lock() {
	w, ok := simCaller()
	if !ok {
		m.real.Lock()
		return
	}
	w.park(&entry{kind: "wlock", resObj: &m.name, lock: m,
		grantable: func() bool { return !m.announced },
		onGrant:   func() any { m.announced = true; return nil }})
	w.park(&entry{kind: "wdrain", resObj: &m.name, lock: m,
		grantable: func() bool { return m.readers == 0 },
		onGrant:   func() any { m.active = true; return nil }})
}

func (m *RWMutex) Unlock() {
	w, ok := simCaller()
	if !ok {
		m.real.Unlock()
		return
	}
	w.mu.Lock()
	if !m.active {
		w.mu.Unlock()
		panic("vsim: unlock of unlocked RWMutex")
	}
	m.active = false
	m.announced = false
	for _, e := range w.parked {
		if e.lock == m && e.kind == "rlock" && !e.admitted {
			e.admitted = true
			m.readers++
		}
	}
	w.mu.Unlock()
	w.pokeRoot()
}

func (m *RWMutex) RLock() {
	w, ok := simCaller()
	if !ok {
		m.real.RLock()
		return
	}
	e := &entry{kind: "rlock", resObj: &m.name, lock: m}
	e.grantable = func() bool { return e.admitted || !m.announced }
	e.onGrant = func() any {
		if !e.admitted {
			m.readers++
		}
		return nil
	}
	w.park(e)
}

func (m *RWMutex) RUnlock() {
	w, ok := simCaller()
	if !ok {
		m.real.RUnlock()
		return
	}
	w.mu.Lock()
	if m.readers <= 0 {
		st := fmt.Sprintf("lock=%s readers=%d announced=%v active=%v", m.name, m.readers, m.announced, m.active)
		w.mu.Unlock()
		panic("vsim: RUnlock of unlocked RWMutex (" + st + ")")
	}
	m.readers--
	w.mu.Unlock()
	w.pokeRoot()
}

type rlocker RWMutex

func (r *rlocker) Lock()   { (*RWMutex)(r).RLock() }
func (r *rlocker) Unlock() { (*RWMutex)(r).RUnlock() }

func (m *RWMutex) RLocker() sync.Locker { return (*rlocker)(m) }

// Once replaces sync.Once.
type Once struct {
	m    Mutex
	done bool
}

func (o *Once) Do(f func()) {
	o.m.Lock()
	defer o.m.Unlock()
	if !o.done {
		defer func() { o.done = true }()
		f()
	}
}

// Pool replaces sync.Pool in instrumented files (rule R1). sync.Pool is a source of
// nondeterminism (per-P caches, cleared by the garbage collector) and a package-level pool
// carries objects from one simulated run into the next one of the same OS process, so that a
// run could not be replayed in a fresh process. This one is LIFO, and empty at the start of
// every run.
type Pool struct {
	New func() any

	mu    sync.Mutex
	world *World
	items []any
}

func (p *Pool) Get() any {
	p.mu.Lock()
	if w := Cur(); w != p.world {
		p.world, p.items = w, nil
	}
	var x any
	if n := len(p.items); n > 0 {
		x, p.items = p.items[n-1], p.items[:n-1]
	}
	p.mu.Unlock()
	if x == nil && p.New != nil {
		x = p.New()
	}
	return x
}

func (p *Pool) Put(x any) {
	if x == nil {
		return
	}
	p.mu.Lock()
	if w := Cur(); w != p.world {
		p.world, p.items = w, nil
	}
	p.items = append(p.items, x)
	p.mu.Unlock()
}
