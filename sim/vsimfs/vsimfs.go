// Package vsimfs holds the filesystem shims that the rewriter (rules R7/R8) substitutes
// for os / io/ioutil / syscall / path/filepath / io.Copy calls in keepstore. Every shim is
// a parked point: the scheduler decides when the step happens, and the harness's Director
// (called on the root goroutine at the instant the step is granted) may inject an error, a
// short write, kill the node, or do anything else first (corrupt a file, move the clock).
// With no simulation active every shim is the wrapped primitive.
package vsimfs

import (
	"errors"
	"fmt"
	"io"
	"io/ioutil"
	"os"
	"path/filepath"
	"sort"
	"strings"
	"sync"
	"syscall"
	"time"

	"verif.local/vsim"
)

// Step describes one filesystem step about to happen.
type Step struct {
	Op    string // open stat rename remove mkdir chtimes tempfile close flock copy-write readdir point ...
	Path  string // relative to Base
	Path2 string
	Task  string
	Node  string
	N     int // bytes for write steps
}

// Director decides the fate of a step. nil = proceed. ErrCrash = the node dies here (the
// Director must have called w.KillNode). *Short = write only N bytes, then fail with Err.
// Any other error is returned by the shim instead of performing the operation.
var Director func(w *vsim.World, s *Step) error

var ErrCrash = errors.New("vsimfs: node crashed at this step")

type Short struct {
	N   int
	Err error
}

func (s *Short) Error() string { return s.Err.Error() }

var (
	Base      string // volume paths are logged relative to this directory
	ChunkSize = 1 << 16
	mu        sync.Mutex
	tmpSeq    int
	flocks    = map[uint64]int{} // inode -> fd holding LOCK_EX (cooperative model of flock(2))
	fdIno     = map[int]uint64{}
)

// Reset clears per-run state. Call it at the start of every run.
func Reset(base string) {
	mu.Lock()
	defer mu.Unlock()
	Base, tmpSeq = base, 0
	flocks, fdIno = map[uint64]int{}, map[int]uint64{}
	Director = nil
	ChunkSize = 1 << 16
}

func rel(p string) string {
	if Base != "" && strings.HasPrefix(p, Base) {
		return "@" + strings.TrimPrefix(p, Base)
	}
	return p
}

// step parks the calling task. Plain goroutines and the root are not scheduled.
func step(op, p1, p2 string, n int) error {
	w := vsim.Cur()
	if w == nil {
		return nil
	}
	t := vsim.CurrentTask()
	if t == nil {
		return nil
	}
	s := &Step{Op: op, Path: rel(p1), Path2: rel(p2), Task: t.ID, Node: t.Node, N: n}
	v := w.Park("fs", op+" "+s.Path, nil, func() any {
		if Director == nil {
			return nil
		}
		if err := Director(w, s); err != nil {
			return err
		}
		return nil
	})
	if err, ok := v.(error); ok && err != nil {
		if err == ErrCrash {
			panic(vsim.Crashed{Node: t.Node})
		}
		return err
	}
	return nil
}

func perr(op, path string, err error) error { return &os.PathError{Op: op, Path: path, Err: err} }

// Point marks a filesystem-relevant statement that no shim wraps (rule R8).
func Point(site string) {
	if err := step("point", site, "", 0); err != nil {
		// a Point cannot return an error; only crashes matter here
		_ = err
	}
}

func Open(name string) (*os.File, error) {
	if err := step("open", name, "", 0); err != nil {
		return nil, perr("open", name, err)
	}
	return os.Open(name)
}
func OpenFile(name string, flag int, perm os.FileMode) (*os.File, error) {
	if err := step("open", name, "", 0); err != nil {
		return nil, perr("open", name, err)
	}
	return os.OpenFile(name, flag, perm)
}
func Create(name string) (*os.File, error) {
	if err := step("create", name, "", 0); err != nil {
		return nil, perr("create", name, err)
	}
	return os.Create(name)
}
func Stat(name string) (os.FileInfo, error) {
	if err := step("stat", name, "", 0); err != nil {
		return nil, perr("stat", name, err)
	}
	return os.Stat(name)
}
func Lstat(name string) (os.FileInfo, error) {
	if err := step("lstat", name, "", 0); err != nil {
		return nil, perr("lstat", name, err)
	}
	return os.Lstat(name)
}
func Remove(name string) error {
	if err := step("remove", name, "", 0); err != nil {
		return perr("remove", name, err)
	}
	return os.Remove(name)
}
func RemoveAll(name string) error {
	if err := step("removeall", name, "", 0); err != nil {
		return perr("removeall", name, err)
	}
	return os.RemoveAll(name)
}
func Rename(a, b string) error {
	if err := step("rename", a, b, 0); err != nil {
		return &os.LinkError{Op: "rename", Old: a, New: b, Err: err}
	}
	return os.Rename(a, b)
}
func Link(a, b string) error {
	if err := step("link", a, b, 0); err != nil {
		return &os.LinkError{Op: "link", Old: a, New: b, Err: err}
	}
	return os.Link(a, b)
}
func Symlink(a, b string) error {
	if err := step("symlink", b, "", 0); err != nil {
		return &os.LinkError{Op: "symlink", Old: a, New: b, Err: err}
	}
	return os.Symlink(a, b)
}
func Readlink(name string) (string, error) {
	if err := step("readlink", name, "", 0); err != nil {
		return "", perr("readlink", name, err)
	}
	return os.Readlink(name)
}
func Mkdir(name string, perm os.FileMode) error {
	if err := step("mkdir", name, "", 0); err != nil {
		return perr("mkdir", name, err)
	}
	return os.Mkdir(name, perm)
}
func MkdirAll(name string, perm os.FileMode) error {
	if err := step("mkdir", name, "", 0); err != nil {
		return perr("mkdir", name, err)
	}
	return os.MkdirAll(name, perm)
}
func Chtimes(name string, a, m time.Time) error {
	if err := step("chtimes", name, "", 0); err != nil {
		return perr("chtimes", name, err)
	}
	return os.Chtimes(name, a, m)
}
func Truncate(name string, size int64) error {
	if err := step("truncate", name, "", 0); err != nil {
		return perr("truncate", name, err)
	}
	return os.Truncate(name, size)
}
func WriteFile(name string, data []byte, perm os.FileMode) error {
	return writeFile(name, data, perm)
}
func IoutilWriteFile(name string, data []byte, perm os.FileMode) error {
	return writeFile(name, data, perm)
}

// writeFile is os.WriteFile as a sequence of steps: open(create|trunc), chunked writes, close.
func writeFile(name string, data []byte, perm os.FileMode) error {
	f, err := OpenFile(name, os.O_WRONLY|os.O_CREATE|os.O_TRUNC, perm)
	if err != nil {
		return err
	}
	for len(data) > 0 {
		n := len(data)
		if n > ChunkSize {
			n = ChunkSize
		}
		if _, err := FileWrite(f, data[:n]); err != nil {
			FileClose(f)
			return err
		}
		data = data[n:]
	}
	return FileClose(f)
}
func ReadFile(name string) ([]byte, error) {
	if err := step("readfile", name, "", 0); err != nil {
		return nil, perr("read", name, err)
	}
	return os.ReadFile(name)
}
func IoutilReadFile(name string) ([]byte, error) { return ReadFile(name) }

// TempFile creates deterministic names (ioutil.TempFile draws them from an unseeded PRNG).
func TempFile(dir, pattern string) (*os.File, error) {
	if vsim.Cur() == nil {
		return ioutil.TempFile(dir, pattern)
	}
	if err := step("tempfile", filepath.Join(dir, pattern), "", 0); err != nil {
		return nil, perr("open", filepath.Join(dir, pattern), err)
	}
	for {
		mu.Lock()
		tmpSeq++
		n := tmpSeq
		mu.Unlock()
		name := filepath.Join(dir, fmt.Sprintf("%s%09d", pattern, n))
		f, err := os.OpenFile(name, os.O_RDWR|os.O_CREATE|os.O_EXCL, 0600)
		if os.IsExist(err) {
			continue
		}
		return f, err
	}
}

func ReadDir(dir string) ([]os.FileInfo, error) {
	if err := step("readdir", dir, "", 0); err != nil {
		return nil, perr("readdir", dir, err)
	}
	return ioutil.ReadDir(dir)
}

func Statfs(path string, buf *syscall.Statfs_t) error {
	if err := step("statfs", path, "", 0); err != nil {
		return err
	}
	return syscall.Statfs(path, buf)
}
func Utime(path string, buf *syscall.Utimbuf) error {
	if err := step("chtimes", path, "", 0); err != nil {
		return err
	}
	return syscall.Utime(path, buf)
}

// Flock is cooperative: a blocked flock(2) would block the OS thread invisibly, so the
// lock table is mirrored here and an exclusive request waits (parked, visible to the
// scheduler) until the holder unlocks or closes its descriptor.
func Flock(fd int, how int) error {
	w := vsim.Cur()
	t := vsim.CurrentTask()
	if w == nil || t == nil {
		return syscall.Flock(fd, how)
	}
	var st syscall.Stat_t
	if err := syscall.Fstat(fd, &st); err != nil {
		return err
	}
	ino := st.Ino
	if how&syscall.LOCK_UN != 0 {
		if vsim.Dead() {
			unflock(fd)
			syscall.Flock(fd, syscall.LOCK_UN)
			panic(vsim.Crashed{Node: t.Node})
		}
		if err := step("funlock", fmt.Sprintf("fd-of-ino"), "", 0); err != nil {
			return err
		}
		unflock(fd)
		return syscall.Flock(fd, syscall.LOCK_UN)
	}
	s := &Step{Op: "flock", Task: t.ID, Node: t.Node}
	v := w.Park("fs", "flock", func() bool {
		mu.Lock()
		defer mu.Unlock()
		_, held := flocks[ino]
		return !held
	}, func() any {
		if Director != nil {
			if err := Director(w, s); err != nil {
				return err
			}
		}
		mu.Lock()
		flocks[ino] = fd
		fdIno[fd] = ino
		mu.Unlock()
		return nil
	})
	if err, ok := v.(error); ok && err != nil {
		if err == ErrCrash {
			panic(vsim.Crashed{Node: t.Node})
		}
		return err
	}
	return syscall.Flock(fd, syscall.LOCK_EX|syscall.LOCK_NB)
}

func unflock(fd int) {
	mu.Lock()
	if ino, ok := fdIno[fd]; ok {
		if flocks[ino] == fd {
			delete(flocks, ino)
		}
		delete(fdIno, fd)
	}
	mu.Unlock()
}

// ---- *os.File methods ------------------------------------------------------------------

func FileClose(f *os.File) error {
	if f == nil {
		return os.ErrInvalid
	}
	t := vsim.CurrentTask()
	if t != nil && vsim.Dead() {
		// process death closes every descriptor (and drops its flocks); nothing else happens
		unflock(int(f.Fd()))
		f.Close()
		panic(vsim.Crashed{Node: t.Node})
	}
	fd := int(f.Fd())
	if err := step("close", f.Name(), "", 0); err != nil {
		// an injected close error (e.g. EIO on a delayed write): the descriptor is gone anyway
		unflock(fd)
		f.Close()
		return perr("close", f.Name(), err)
	}
	unflock(fd)
	return f.Close()
}
func FileSync(f *os.File) error {
	if err := step("fsync", f.Name(), "", 0); err != nil {
		return perr("sync", f.Name(), err)
	}
	return f.Sync()
}
func FileStat(f *os.File) (os.FileInfo, error) {
	if err := step("fstat", f.Name(), "", 0); err != nil {
		return nil, perr("stat", f.Name(), err)
	}
	return f.Stat()
}
func FileTruncate(f *os.File, n int64) error {
	if err := step("ftruncate", f.Name(), "", 0); err != nil {
		return perr("truncate", f.Name(), err)
	}
	return f.Truncate(n)
}
func FileSeek(f *os.File, off int64, whence int) (int64, error) { return f.Seek(off, whence) }
func FileReaddir(f *os.File, n int) ([]os.FileInfo, error) {
	if err := step("readdir", f.Name(), "", 0); err != nil {
		return nil, perr("readdir", f.Name(), err)
	}
	return f.Readdir(n)
}
func FileReaddirnames(f *os.File, n int) ([]string, error) {
	if err := step("readdir", f.Name(), "", 0); err != nil {
		return nil, perr("readdir", f.Name(), err)
	}
	return f.Readdirnames(n)
}
func FileRead(f *os.File, p []byte) (int, error) {
	if err := step("read", f.Name(), "", len(p)); err != nil {
		return 0, perr("read", f.Name(), err)
	}
	return f.Read(p)
}
func FileWrite(f *os.File, p []byte) (int, error) {
	if err := step("write", f.Name(), "", len(p)); err != nil {
		var sh *Short
		if errors.As(err, &sh) {
			n := sh.N
			if n > len(p) {
				n = len(p)
			}
			w, _ := f.Write(p[:n])
			return w, perr("write", f.Name(), sh.Err)
		}
		return 0, perr("write", f.Name(), err)
	}
	return f.Write(p)
}
func FileWriteString(f *os.File, s string) (int, error) { return FileWrite(f, []byte(s)) }

// Copy is io.Copy in chunks with a step before every write (and before every read of a file).
func Copy(dst io.Writer, src io.Reader) (int64, error) {
	if vsim.Cur() == nil || vsim.CurrentTask() == nil {
		return io.Copy(dst, src)
	}
	name := func(x any) string {
		if f, ok := x.(*os.File); ok {
			return f.Name()
		}
		return fmt.Sprintf("(%T)", x)
	}
	buf := make([]byte, ChunkSize)
	var written int64
	for {
		if f, ok := src.(*os.File); ok {
			if err := step("read", f.Name(), "", len(buf)); err != nil {
				return written, perr("read", f.Name(), err)
			}
		}
		nr, er := src.Read(buf)
		if nr > 0 {
			if err := step("copy-write", name(dst), "", nr); err != nil {
				var sh *Short
				if errors.As(err, &sh) {
					n := sh.N
					if n > nr {
						n = nr
					}
					nw, _ := dst.Write(buf[:n])
					return written + int64(nw), sh.Err
				}
				return written, err
			}
			nw, ew := dst.Write(buf[:nr])
			if nw < 0 || nr < nw {
				nw = 0
				if ew == nil {
					ew = errors.New("invalid write result")
				}
			}
			written += int64(nw)
			if ew != nil {
				return written, ew
			}
			if nr != nw {
				return written, io.ErrShortWrite
			}
		}
		if er != nil {
			if er != io.EOF {
				return written, er
			}
			return written, nil
		}
	}
}

// Walk is filepath.Walk with a step before every directory read.
func Walk(root string, fn filepath.WalkFunc) error {
	if vsim.Cur() == nil || vsim.CurrentTask() == nil {
		return filepath.Walk(root, fn)
	}
	var err error
	if e := step("lstat", root, "", 0); e != nil {
		err = fn(root, nil, perr("lstat", root, e))
	} else if info, e := os.Lstat(root); e != nil {
		err = fn(root, nil, e)
	} else {
		err = walk(root, info, fn)
	}
	if err == filepath.SkipDir {
		return nil
	}
	return err
}

func walk(path string, info os.FileInfo, fn filepath.WalkFunc) error {
	if !info.IsDir() {
		return fn(path, info, nil)
	}
	var names []string
	err := step("readdir", path, "", 0)
	if err != nil {
		err = perr("readdir", path, err)
	} else {
		var f *os.File
		if f, err = os.Open(path); err == nil {
			names, err = f.Readdirnames(-1)
			f.Close()
			sort.Strings(names)
		}
	}
	err1 := fn(path, info, err)
	if err != nil || err1 != nil {
		return err1
	}
	for _, name := range names {
		filename := filepath.Join(path, name)
		fileInfo, err := os.Lstat(filename)
		if err != nil {
			if err := fn(filename, fileInfo, err); err != nil && err != filepath.SkipDir {
				return err
			}
		} else {
			err = walk(filename, fileInfo, fn)
			if err != nil {
				if !fileInfo.IsDir() || err != filepath.SkipDir {
					return err
				}
			}
		}
	}
	return nil
}
