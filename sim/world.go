// Package vsim is the deterministic-simulation kernel used by every /verif harness.
//
// One World lives inside one testing/synctest bubble. The root goroutine (the
// scenario) steps the system: wait until every goroutine of the bubble is durably
// blocked (quiescence), collect the parked requests (lock acquisitions, filesystem
// steps, pending network calls, ...), pick ONE by a recorded choice, release it, repeat.
// Every random decision comes from Choose(); the vector of choices is the replay file.
package vsim

import (
	"bytes"
	"crypto/sha256"
	"encoding/hex"
	"fmt"
	"hash"
	"net/http"
	"path/filepath"
	"runtime"
	"sort"
	"strconv"
	"strings"
	"sync"
	"testing/synctest"
	"time"
)

// Config of one run.
type Config struct {
	Seed     uint64
	Run      int
	Replay   []int // when non-nil, choices are read from here (value % n; exhausted => 0)
	MaxSteps int   // scheduler grants per run (default 20000)
	MaxIdle  time.Duration
	KeepLog  bool
	Strategy string // "", "uniform", "rtc", "pct" ("" = drawn per run)
}

type Violation struct {
	Clause string `json:"clause"`
	Sig    string `json:"sig,omitempty"` // stable signature of the failing site/input class (known-findings key)
	Detail any    `json:"detail,omitempty"`
	Step   int    `json:"step"`
	SimAt  string `json:"simtime"`
}

type World struct {
	mu  sync.Mutex
	cfg Config

	rng *splitmix // recorded choices
	aux *splitmix // unrecorded, deterministic: step epsilon only (drawn identically in record and replay mode)
	str *splitmix // scheduling strategy draws (record mode only; replay reads indexes)

	choices   []int
	replayPos int

	byGoid map[int64]*Task
	tasks  []*Task
	parked []*entry
	arrive int
	poke   chan struct{}
	rootID int64
	start  time.Time

	steps     int
	contended int // scheduling decisions with >1 candidate
	lastKey   string
	strategy  string
	rtcStay   int // permille
	pctPrio   map[string]uint64
	pctChange map[int]bool

	h        hash.Hash
	logLines []string
	logN     int

	probes map[string]int
	faults map[string]int
	notes  map[string]string

	pending     map[string][]string
	viol        *Violation
	infra       string
	truncated   bool
	lockSeq     int
	hold        map[string]int
	endState    string
	codeRand    *splitmix
	stamp       int64
	rootSpawned int
	rootNode    string
	finished    bool
	simEnd      time.Duration

	// GateSpawn (on by default; a scenario may switch it off before it starts the system): a child started by
	// the rewritten `go` statement first parks at a "spawn" point, so it begins to run only
	// when the scheduler grants it - never concurrently with its parent. Without it the
	// child races with the code the parent executes up to its next parked point (e.g. an
	// RWMutex.Unlock admitting the readers that are parked at that instant).
	GateSpawn bool
	// PreemptOn: statement-level preemption points (vsim.Preempt, inserted by rewriter rule R9 into
	// selected files) are scheduling decisions. Off: they cost nothing. Set by the scenario (root)
	// before it starts the tasks that may reach such points.
	PreemptOn   bool
	killedNodes map[string]bool // nodes killed so far (their pending AfterFunc timers never fire)
	// DefaultTransport: what vsim.HTTPTransport (rule R10) hands to code that builds its own http.Transport.
	DefaultTransport http.RoundTripper
	// StallPM / StallBudget: at a preemption point the task is, with this probability (per mille, drawn
	// on the root) and at most StallBudget times per run, descheduled for a drawn while of SIMULATED time
	// (a slow or starved thread: 1 ms .. 5 s) while everything else goes on. The budget is per task.
	StallPM     int
	StallBudget int
}

var cur *World
var curMu sync.Mutex

// Cur returns the active world (nil outside a simulation).
func Cur() *World {
	curMu.Lock()
	defer curMu.Unlock()
	return cur
}

func goid() int64 {
	var buf [64]byte
	n := runtime.Stack(buf[:], false)
	b := buf[len("goroutine "):n]
	i := bytes.IndexByte(b, ' ')
	id, _ := strconv.ParseInt(string(b[:i]), 10, 64)
	return id
}

// NewWorld must be called from the bubble's root goroutine.
func NewWorld(cfg Config) *World {
	if cfg.MaxSteps == 0 {
		cfg.MaxSteps = 20000
	}
	if cfg.MaxIdle == 0 {
		cfg.MaxIdle = 2 * time.Hour
	}
	w := &World{
		cfg:    cfg,
		rng:    newSplitmix(cfg.Seed*0x9E3779B97F4A7C15 + uint64(cfg.Run)*0xBF58476D1CE4E5B9 + 1),
		aux:    newSplitmix(cfg.Seed*0x94D049BB133111EB + uint64(cfg.Run)*0x2545F4914F6CDD1D + 7),
		str:    newSplitmix(cfg.Seed*0xD6E8FEB86659FD93 + uint64(cfg.Run)*0xFF51AFD7ED558CCD + 3),
		byGoid: map[int64]*Task{},
		poke:   make(chan struct{}, 1),
		rootID: goid(),
		start:  time.Now(),
		h:      sha256.New(),
		probes: map[string]int{},
		faults: map[string]int{},
		notes:  map[string]string{},
	}
	w.GateSpawn = true // children of rewritten go statements never run concurrently with their parent
	w.strategy = cfg.Strategy
	if w.strategy == "" {
		w.strategy = []string{"uniform", "rtc", "rtc", "pct"}[w.str.intn(4)]
	}
	w.rtcStay = []int{500, 800, 950}[w.str.intn(3)]
	w.pctPrio = map[string]uint64{}
	w.pctChange = map[int]bool{}
	for i, d := 0, 1+w.str.intn(4); i < d; i++ {
		w.pctChange[w.str.intn(300)] = true
	}
	curMu.Lock()
	cur = w
	curMu.Unlock()
	return w
}

func (w *World) Close() {
	curMu.Lock()
	if cur == w {
		cur = nil
	}
	curMu.Unlock()
}

// ---- choices ----------------------------------------------------------------------

func (w *World) isRoot() bool { return goid() == w.rootID }

// Choose returns a recorded choice in [0,n). 0 is always the benign default
// (generators and fault menus are written so). Root goroutine only: tasks
// run concurrently between two quiescent points, so a draw from a task would not
// have a reproducible position in the choice vector.
func (w *World) Choose(label string, n int) int {
	if n <= 1 {
		return 0
	}
	if !w.isRoot() {
		panic("vsim: Choose(" + label + ") from non-root goroutine")
	}
	v := w.draw(n, func() int { return w.rng.intn(n) })
	w.Logf("choose %s %d -> %d", label, n, v)
	return v
}

func (w *World) draw(n int, gen func() int) int {
	var v int
	if w.cfg.Replay != nil {
		if w.replayPos < len(w.cfg.Replay) {
			v = w.cfg.Replay[w.replayPos] % n
			if v < 0 {
				v = 0
			}
		}
		w.replayPos++
	} else {
		v = gen()
	}
	w.choices = append(w.choices, v)
	return v
}

// Chance is true with probability permille/1000; false is choice 0.
func (w *World) Chance(label string, permille int) bool {
	if permille <= 0 {
		return false
	}
	if !w.isRoot() {
		panic("vsim: Chance(" + label + ") from non-root goroutine")
	}
	v := w.draw(2, func() int {
		if w.rng.intn(1000) < permille {
			return 1
		}
		return 0
	})
	w.Logf("chance %s %d -> %d", label, permille, v)
	return v == 1
}

// Range returns lo + Choose(hi-lo+1).
func (w *World) Range(label string, lo, hi int) int { return lo + w.Choose(label, hi-lo+1) }

// Bytes returns n recorded pseudo-random bytes drawn compactly (one choice per byte
// would bloat the vector: content bytes come from a generator seeded by ONE choice).
func (w *World) Bytes(label string, n int) []byte {
	s := newSplitmix(uint64(w.Choose(label, 1<<30)) + 0x1234)
	b := make([]byte, n)
	for i := range b {
		b[i] = byte(s.next())
	}
	return b
}

func (w *World) Choices() []int { return append([]int(nil), w.choices...) }

// ---- log / probes / verdicts ---------------------------------------------------------

// Logf appends to the canonical event log. It never draws and never reads a real clock.
// Lines logged by tasks are buffered per task and merged in task-id order at the next
// quiescent point, so their relative order never depends on thread timing.
func (w *World) Logf(format string, args ...any) {
	s := fmt.Sprintf(format, args...)
	id := goid()
	w.mu.Lock()
	if id == w.rootID {
		w.flushPendingLocked()
		w.logLocked(s)
	} else {
		key := "~"
		if t := w.byGoid[id]; t != nil {
			key = t.ID
		}
		if w.pending == nil {
			w.pending = map[string][]string{}
		}
		w.pending[key] = append(w.pending[key], fmt.Sprintf("@%s %s", time.Since(w.start), s))
	}
	w.mu.Unlock()
}

func (w *World) flushPendingLocked() {
	if len(w.pending) == 0 {
		return
	}
	keys := make([]string, 0, len(w.pending))
	for k := range w.pending {
		keys = append(keys, k)
	}
	sort.Strings(keys)
	for _, k := range keys {
		for _, s := range w.pending[k] {
			w.logLocked("[" + k + "] " + s)
		}
	}
	w.pending = nil
}

func (w *World) logLocked(s string) {
	w.logN++
	var line string
	if w.finished {
		line = fmt.Sprintf("%d %s", w.logN, s) // after the bubble: no clock
	} else {
		line = fmt.Sprintf("%d t=%s %s", w.logN, time.Since(w.start), s)
	}
	w.h.Write([]byte(line))
	w.h.Write([]byte{'\n'})
	if w.cfg.KeepLog {
		w.logLines = append(w.logLines, line)
	}
}

func (w *World) Probe(name string) { w.mu.Lock(); w.probes[name]++; w.mu.Unlock() }
func (w *World) Fault(kind string) {
	w.mu.Lock()
	w.faults[kind]++
	w.logLocked("fault " + kind)
	w.mu.Unlock()
}
func (w *World) Note(k, v string) { w.mu.Lock(); w.notes[k] = v; w.mu.Unlock() }

// Violation records the first property violation of the run; the run stops at the next step.
func (w *World) Violation(clause string, format string, args ...any) {
	w.ViolationSig(clause, "", format, args...)
}

// ViolationSig is Violation with a signature naming the specific site or input class.
func (w *World) ViolationSig(clause, sig string, format string, args ...any) {
	w.mu.Lock()
	defer w.mu.Unlock()
	if w.viol != nil {
		return
	}
	d := fmt.Sprintf(format, args...)
	w.viol = &Violation{Clause: clause, Sig: sig, Detail: d, Step: w.steps, SimAt: time.Since(w.start).String()}
	if id := goid(); id == w.rootID {
		w.flushPendingLocked()
		w.logLocked("VIOLATION " + clause + " " + d)
	} else {
		key := "~"
		if t := w.byGoid[id]; t != nil {
			key = t.ID
		}
		if w.pending == nil {
			w.pending = map[string][]string{}
		}
		w.pending[key] = append(w.pending[key], fmt.Sprintf("@%s VIOLATION %s %s", time.Since(w.start), clause, d))
	}
	w.pokeRoot()
}

// Infra records a harness/infrastructure problem (never reported as a violation).
func (w *World) Infra(format string, args ...any) {
	w.mu.Lock()
	if w.infra == "" {
		w.infra = fmt.Sprintf(format, args...)
	}
	w.mu.Unlock()
	w.pokeRoot()
}

func (w *World) Failed() bool {
	w.mu.Lock()
	defer w.mu.Unlock()
	return w.viol != nil || w.infra != ""
}
func (w *World) Now() time.Time         { return time.Now() }
func (w *World) Elapsed() time.Duration { return time.Since(w.start) }
func (w *World) Steps() int             { return w.steps }
func (w *World) SetEndState(s string)   { w.endState = s }
func (w *World) Truncated() bool        { return w.truncated }
func (w *World) Fingerprint() string {
	w.mu.Lock()
	w.flushPendingLocked()
	w.mu.Unlock()
	return hex.EncodeToString(w.h.Sum(nil))
}
func (w *World) LogLines() []string          { return w.logLines }
func (w *World) GetViolation() *Violation    { return w.viol }
func (w *World) GetInfra() string            { return w.infra }
func (w *World) ProbeCounts() map[string]int { return w.probes }
func (w *World) FaultCounts() map[string]int { return w.faults }

func (w *World) pokeRoot() {
	select {
	case w.poke <- struct{}{}:
	default:
	}
}

// ---- tasks -------------------------------------------------------------------------

type Task struct {
	ID      string
	Node    string
	spawned int
	done    bool
	dead    bool
	w       *World
	stalls  int // stalls taken at preemption points (root only)
}

// Crashed is the panic value that unwinds a task whose node was killed.
type Crashed struct{ Node string }

func (w *World) startTask(t *Task, fn func()) {
	t.w = w
	w.mu.Lock()
	w.tasks = append(w.tasks, t)
	w.mu.Unlock()
	reg := make(chan struct{})
	go func() {
		id := goid()
		w.mu.Lock()
		w.byGoid[id] = t
		w.mu.Unlock()
		close(reg)
		defer func() {
			r := recover()
			w.mu.Lock()
			t.done = true
			delete(w.byGoid, id)
			w.mu.Unlock()
			w.pokeRoot()
			if r != nil {
				if _, ok := r.(Crashed); !ok {
					w.taskPanic(t, r)
				}
			}
		}()
		fn()
	}()
	<-reg
}

// taskPanic classifies a panic that unwound a task: raised inside the code under test it
// is a violation (an operation blew up instead of behaving); raised in harness or kernel
// code it is an infrastructure problem.
func (w *World) taskPanic(t *Task, r any) {
	pcs := make([]uintptr, 64)
	n := runtime.Callers(3, pcs)
	frames := runtime.CallersFrames(pcs[:n])
	site, file := "?", ""
	var trace []string
	for {
		f, more := frames.Next()
		if !strings.HasPrefix(f.Function, "runtime.") && f.Function != "" {
			if site == "?" {
				site, file = f.Function, f.File
			}
			trace = append(trace, fmt.Sprintf("%s (%s:%d)", f.Function, filepath.Base(f.File), f.Line))
		}
		if !more || len(trace) > 12 {
			break
		}
	}
	base := filepath.Base(file)
	if strings.HasPrefix(base, "verif_") || strings.Contains(site, "verif.local/vsim") || strings.Contains(file, "/verif/") {
		w.Infra("panic in harness task %s: %v at %s", t.ID, r, strings.Join(trace, " <- "))
		return
	}
	w.ViolationSig("panic-in-code-under-test", site, "task %s: %v at %s", t.ID, r, strings.Join(trace, " <- "))
}

// Spawn starts a harness-level task (client, node, worker). id must be unique and stable.
func (w *World) Spawn(id string, fn func()) *Task { return w.SpawnOn("", id, fn) }

// SpawnOn starts a task that belongs to a simulated node (see KillNode).
func (w *World) SpawnOn(node, id string, fn func()) *Task {
	t := &Task{ID: id, Node: node}
	w.startTask(t, fn)
	return t
}

func (w *World) current() *Task {
	id := goid()
	w.mu.Lock()
	defer w.mu.Unlock()
	return w.byGoid[id]
}

// CurrentTask returns the task of the calling goroutine (nil if none).
func CurrentTask() *Task {
	w := Cur()
	if w == nil {
		return nil
	}
	return w.current()
}

// Go is the rewritten `go` statement (rule R2): the child gets a structural id.
func Go(fn func()) {
	w := Cur()
	if w == nil {
		go fn()
		return
	}
	p := w.current()
	if p == nil {
		if w.isRoot() {
			// goroutines started by instrumented code called from the scenario itself
			w.mu.Lock()
			w.rootSpawned++
			id := fmt.Sprintf("root.%d", w.rootSpawned)
			node := w.rootNode
			w.mu.Unlock()
			w.startTask(&Task{ID: id, Node: node}, fn)
			return
		}
		go fn()
		return
	}
	w.mu.Lock()
	p.spawned++
	id := fmt.Sprintf("%s.%d", p.ID, p.spawned)
	dead := p.dead
	w.mu.Unlock()
	if w.GateSpawn {
		inner := fn
		fn = func() { w.Park("spawn", "", nil, nil); inner() }
	}
	w.startTask(&Task{ID: id, Node: p.Node, dead: dead}, fn)
}

// AfterFunc is the rewritten time.AfterFunc (rule R3).
func AfterFunc(d time.Duration, fn func()) *time.Timer {
	w := Cur()
	if w == nil {
		return time.AfterFunc(d, fn)
	}
	p := w.current()
	if p == nil {
		return time.AfterFunc(d, fn)
	}
	w.mu.Lock()
	p.spawned++
	t := &Task{ID: fmt.Sprintf("%s.t%d", p.ID, p.spawned), Node: p.Node, w: w}
	w.mu.Unlock()
	return time.AfterFunc(d, func() {
		id := goid()
		w.mu.Lock()
		if w.killedNodes[t.Node] {
			// the process that armed this timer is dead: its timers never fire
			w.mu.Unlock()
			return
		}
		w.tasks = append(w.tasks, t)
		w.byGoid[id] = t
		w.mu.Unlock()
		defer func() {
			r := recover()
			w.mu.Lock()
			t.done = true
			delete(w.byGoid, id)
			w.mu.Unlock()
			w.pokeRoot()
			if r != nil {
				if _, ok := r.(Crashed); !ok {
					w.taskPanic(t, r)
				}
			}
		}()
		fn()
	})
}

// KillNode marks every task of the node dead: parked ones are unwound with a Crashed
// panic (their deferred filesystem calls become no-ops in vsimfs), and any later
// parked point reached by a straggler unwinds it too. Root only.
func (w *World) KillNode(node string) {
	w.mu.Lock()
	if w.killedNodes == nil {
		w.killedNodes = map[string]bool{}
	}
	w.killedNodes[node] = true
	var wake []*entry
	for _, t := range w.tasks {
		if t.Node == node && !t.done {
			t.dead = true
		}
	}
	keep := w.parked[:0]
	for _, e := range w.parked {
		if e.task != nil && e.task.dead {
			wake = append(wake, e)
		} else {
			keep = append(keep, e)
		}
	}
	w.parked = keep
	w.logLocked("kill-node " + node)
	w.mu.Unlock()
	for _, e := range wake {
		e.wake <- crashVerdict{}
		synctest.Wait()
	}
}

// RootNode sets the node that goroutines spawned (through vsim.Go) by code called directly
// from the scenario belong to.
func (w *World) RootNode(node string) { w.mu.Lock(); w.rootNode = node; w.mu.Unlock() }

// Dead reports whether the calling goroutine belongs to a killed node.
func Dead() bool {
	t := CurrentTask()
	if t == nil {
		return false
	}
	t.w.mu.Lock()
	defer t.w.mu.Unlock()
	return t.dead
}

// AllDone reports whether every spawned task has finished.
func (w *World) AllDone() bool {
	w.mu.Lock()
	defer w.mu.Unlock()
	for _, t := range w.tasks {
		if !t.done && !t.dead {
			return false
		}
	}
	return true
}

// Blocked lists unfinished tasks with what they are parked on (for deadlock reports).
func (w *World) Blocked() []string {
	w.mu.Lock()
	defer w.mu.Unlock()
	at := map[*Task]*entry{}
	for _, e := range w.parked {
		if e.task != nil {
			at[e.task] = e
		}
	}
	var r []string
	for _, t := range w.tasks {
		if t.done || t.dead {
			continue
		}
		if e := at[t]; e != nil {
			r = append(r, fmt.Sprintf("%s parked %s %s", t.ID, e.kind, e.resName()))
		} else {
			r = append(r, fmt.Sprintf("%s blocked-in-code", t.ID))
		}
	}
	sort.Strings(r)
	return r
}

// ---- parked points -----------------------------------------------------------------

type crashVerdict struct{}

type entry struct {
	key       string
	kind      string
	res       string
	resObj    *string // lazily named resource (locks): named at quiescence in canonical order
	lock      any
	grantable func() bool
	onGrant   func() any
	wake      chan any
	task      *Task
	admitted  bool
	seq       int
}

func (e *entry) resName() string {
	if e.resObj != nil {
		return *e.resObj
	}
	return e.res
}

// Park blocks the caller until the scheduler grants the request. grantable and onGrant
// run on the root goroutine at quiescence (onGrant's result is returned to the caller),
// so models touched from onGrant need no locking. key identifies the request canonically
// when the caller is not a registered task (plain goroutines of uninstrumented code).
func (w *World) Park(kind, key string, grantable func() bool, onGrant func() any) any {
	return w.park(&entry{kind: kind, res: key, grantable: grantable, onGrant: onGrant})
}

func (w *World) park(e *entry) any {
	id := goid()
	if id == w.rootID {
		// The root may be running concurrently with the task it released last (Step returns
		// right after the hand-off): reach quiescence first, then grant immediately or fail
		// loudly. Lock state is only ever touched at quiescence or under w.mu.
		synctest.Wait()
		if e.grantable != nil && !e.grantable() {
			panic("vsim: root goroutine would block on " + e.kind + " " + e.resName())
		}
		if e.onGrant != nil {
			return e.onGrant()
		}
		return nil
	}
	e.wake = make(chan any)
	w.mu.Lock()
	t := w.byGoid[id]
	if t != nil && t.dead {
		w.mu.Unlock()
		panic(Crashed{t.Node})
	}
	e.task = t
	if t != nil {
		e.key = t.ID
	} else {
		e.key = "~" + e.res
	}
	w.arrive++
	e.seq = w.arrive
	w.parked = append(w.parked, e)
	w.mu.Unlock()
	w.pokeRoot()
	v := <-e.wake
	if _, ok := v.(crashVerdict); ok {
		panic(Crashed{})
	}
	return v
}

// Preempt is a statement-level preemption point (rule R9): a task may lose the processor
// between any two statements of a file instrumented that way, so that unsynchronised
// sections of lock-free code interleave under the scheduler's control. A no-op outside
// tasks and unless the scenario switched PreemptOn on.
func Preempt(site string) {
	w := Cur()
	if w == nil || !w.PreemptOn {
		return
	}
	t := w.current()
	if t == nil {
		return
	}
	if w.StallPM <= 0 {
		w.Park("preempt", site, nil, nil)
		return
	}
	d := w.Park("preempt", site, nil, func() any {
		if t.stalls >= w.StallBudget || !w.Chance("stall", w.StallPM) {
			return time.Duration(0)
		}
		t.stalls++
		w.Fault("task-stalled-at-preemption-point")
		return []time.Duration{time.Millisecond, 50 * time.Millisecond, time.Second, 5 * time.Second}[w.Choose("stall-for", 4)]
	}).(time.Duration)
	if d > 0 {
		time.Sleep(d)
	}
}

// Yield is a plain scheduling point.
func Yield(kind, what string) {
	w := Cur()
	if w == nil {
		return
	}
	if w.current() == nil && !w.isRoot() {
		return
	}
	w.Park(kind, what, nil, nil)
}

func (w *World) eps() time.Duration {
	return time.Microsecond * time.Duration(1+w.aux.intn(200))
}

// Step performs one scheduling step. It returns false when nothing more can happen
// (everything finished, deadlock, idle for MaxIdle of simulated time), when the step
// budget is exhausted, or when a violation/infra problem has been recorded.
func (w *World) Step() bool {
	idle := time.Duration(0)
	quantum := time.Millisecond
	for {
		time.Sleep(w.eps()) // time never stands still across a decision
		synctest.Wait()
		if w.Failed() {
			return false
		}
		if w.steps >= w.cfg.MaxSteps {
			w.truncated = true
			return false
		}
		ready := w.collectReady()
		if len(ready) > 0 {
			w.grant(ready)
			return true
		}
		w.mu.Lock()
		nparked := len(w.parked)
		live := 0
		for _, t := range w.tasks {
			if !t.done && !t.dead {
				live++
			}
		}
		w.mu.Unlock()
		if live == 0 && nparked == 0 {
			return false
		}
		// Nothing grantable now: let simulated time pass until somebody parks or a timer fires.
		select {
		case <-w.poke:
			idle = 0
		case <-time.After(quantum):
			idle += quantum
			if quantum < w.cfg.MaxIdle/8 {
				quantum *= 2
			}
			if idle >= w.cfg.MaxIdle {
				return false
			}
		}
	}
}

// Run steps until Step returns false or until cond (evaluated at quiescence) is true.
func (w *World) Run(cond func() bool) {
	for {
		if cond != nil {
			synctest.Wait()
			if cond() {
				return
			}
		}
		if !w.Step() {
			return
		}
	}
}

// SetMaxIdle changes how much simulated time may pass with nothing to schedule before
// Step gives up (tasks sleeping across long timeouts need more than the default).
func (w *World) SetMaxIdle(d time.Duration) { w.cfg.MaxIdle = d }

// Quiesce waits until every goroutine in the bubble is durably blocked.
func (w *World) Quiesce() { synctest.Wait() }

// Advance lets d of simulated time pass (timers owned by the code under test fire).
// Root only.
func (w *World) Advance(d time.Duration) {
	w.Logf("advance %s", d)
	time.Sleep(d)
	synctest.Wait()
}

func (w *World) collectReady() []*entry {
	w.mu.Lock()
	defer w.mu.Unlock()
	w.flushPendingLocked()
	all := append([]*entry(nil), w.parked...)
	sort.SliceStable(all, func(i, j int) bool {
		if all[i].key != all[j].key {
			return all[i].key < all[j].key
		}
		if all[i].kind != all[j].kind {
			return all[i].kind < all[j].kind
		}
		return all[i].seq < all[j].seq
	})
	for _, e := range all {
		if e.resObj != nil && *e.resObj == "" {
			w.lockSeq++
			*e.resObj = fmt.Sprintf("L%d", w.lockSeq)
		}
	}
	var ready []*entry
	for _, e := range all {
		if e.grantable == nil || e.grantable() {
			ready = append(ready, e)
		}
	}
	ready = w.applyHold(ready)
	// choice 0 = keep running the task that ran last, if it is ready
	for i, e := range ready {
		if e.key == w.lastKey && i > 0 {
			copy(ready[1:i+1], ready[:i])
			ready[0] = e
			break
		}
	}
	return ready
}

// HoldKinds makes requests of the given kinds "slow": at each step, with the given
// probability (permille, one recorded draw per step and kind), they are left pending as
// long as something else can run. Used to let background Keep writes complete only many
// operations later.
func (w *World) HoldKinds(m map[string]int) { w.hold = m }

func (w *World) applyHold(ready []*entry) []*entry {
	if len(w.hold) == 0 || len(ready) < 2 {
		return ready
	}
	held := map[string]bool{}
	for _, kind := range SortedKeys(w.hold) {
		p := w.hold[kind]
		if p <= 0 {
			continue
		}
		present := false
		for _, e := range ready {
			if e.kind == kind {
				present = true
			}
		}
		if !present {
			continue
		}
		// w.mu is held by the caller; draw() does not take it
		v := w.draw(2, func() int {
			if w.rng.intn(1000) < p {
				return 1
			}
			return 0
		})
		if v == 1 {
			held[kind] = true
		}
	}
	if len(held) == 0 {
		return ready
	}
	var rest []*entry
	for _, e := range ready {
		if !held[e.kind] {
			rest = append(rest, e)
		}
	}
	if len(rest) == 0 {
		return ready
	}
	return rest
}

func (w *World) grant(ready []*entry) {
	k := 0
	if len(ready) > 1 {
		w.contended++
		k = w.draw(len(ready), func() int { return w.strategyPick(ready) })
	}
	e := ready[k]
	w.mu.Lock()
	for i, p := range w.parked {
		if p == e {
			w.parked = append(w.parked[:i], w.parked[i+1:]...)
			break
		}
	}
	w.steps++
	w.lastKey = e.key
	w.logLocked(fmt.Sprintf("grant %s %s %s (%d/%d)", e.key, e.kind, e.resName(), k, len(ready)))
	w.mu.Unlock()
	var v any
	if e.onGrant != nil {
		if e.lock != nil {
			// lock bookkeeping: also under w.mu, like Unlock/RUnlock on the task side
			w.mu.Lock()
			v = e.onGrant()
			w.mu.Unlock()
		} else {
			v = e.onGrant()
		}
	}
	e.wake <- v
}

func (w *World) strategyPick(ready []*entry) int {
	n := len(ready)
	switch w.strategy {
	case "rtc":
		if w.str.intn(1000) < w.rtcStay {
			return 0
		}
		return w.str.intn(n)
	case "pct":
		best, bi := uint64(0), 0
		for i, e := range ready {
			p, ok := w.pctPrio[e.key]
			if !ok {
				p = w.str.next()>>1 + 1<<20
				w.pctPrio[e.key] = p
			}
			if p >= best {
				best, bi = p, i
			}
		}
		if w.pctChange[w.steps] {
			w.pctPrio[ready[bi].key] = uint64(w.str.intn(1 << 20))
		}
		return bi
	default:
		return w.str.intn(n)
	}
}

// ---- tiny PRNG ---------------------------------------------------------------------

type splitmix struct{ s uint64 }

func newSplitmix(seed uint64) *splitmix { return &splitmix{seed} }
func (r *splitmix) next() uint64 {
	r.s += 0x9E3779B97F4A7C15
	z := r.s
	z = (z ^ (z >> 30)) * 0xBF58476D1CE4E5B9
	z = (z ^ (z >> 27)) * 0x94D049BB133111EB
	return z ^ (z >> 31)
}
func (r *splitmix) intn(n int) int {
	if n <= 1 {
		return 0
	}
	return int(r.next() % uint64(n))
}

// NewRand gives harness code (generators running on the root) a deterministic stream
// derived from ONE recorded choice.
func (w *World) NewRand(label string) *Rand {
	return &Rand{newSplitmix(uint64(w.Choose(label, 1<<30)) ^ 0xABCDEF)}
}

type Rand struct{ s *splitmix }

func (r *Rand) Intn(n int) int   { return r.s.intn(n) }
func (r *Rand) Uint64() uint64   { return r.s.next() }
func (r *Rand) Float64() float64 { return float64(r.s.next()>>11) / (1 << 53) }
