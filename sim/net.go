package vsim

import (
	"bytes"
	"context"
	"crypto/md5"
	"errors"
	"fmt"
	"io"
	"net/http"
	"sort"
	"strconv"
	"time"
)

// NetRequest is what a simulated node sees. Handlers run on the root goroutine at
// quiescence, one at a time, so they may touch model state and call Choose freely.
type NetRequest struct {
	Seq    int
	Method string
	Host   string // URL host (node address)
	Path   string // URL path
	Query  string
	Header http.Header
	Body   []byte
	Ctx    context.Context
	Raw    *http.Request
	Task   string // id of the registered task that issued the request ("" for plain goroutines)
}

// NetReply describes what comes back. Zero latency is replaced by a strictly positive
// minimum: time never stands still across an external call.
type NetReply struct {
	Err     error // transport-level error (connection refused/reset): no response at all
	Status  int
	Header  http.Header
	Body    []byte
	Latency time.Duration
	Hang    bool  // never answer; return when the request context ends
	BodyErr error // returned by Body.Read after the last byte instead of io.EOF
	// NoLength suppresses Content-Length (chunked transfer); ContentLength overrides it (-2 = unset).
	NoLength      bool
	EOFWithData   bool // the last Read returns its bytes together with io.EOF (legal io.Reader behaviour, as net/http does)
	ContentLength int64
	SetCL         bool
}

// Net is the simulated transport: an http.RoundTripper and a keepclient.HTTPClient.
type Net struct {
	W       *World
	Handler func(*NetRequest) *NetReply
	// OnDeliver runs (on the root, at quiescence) at the instant a reply is handed to the caller.
	OnDeliver func(*NetRequest, *NetReply)
	seq       map[string]int
	total     int
}

func NewNet(w *World, h func(*NetRequest) *NetReply) *Net {
	return &Net{W: w, Handler: h, seq: map[string]int{}}
}

var ErrConnRefused = errors.New("simulated: connection refused")
var ErrConnReset = errors.New("simulated: connection reset by peer")

func (n *Net) RoundTrip(req *http.Request) (*http.Response, error) { return n.Do(req) }

func (n *Net) Do(req *http.Request) (*http.Response, error) {
	w := n.W
	var body []byte
	if req.Body != nil {
		var err error
		body, err = io.ReadAll(req.Body)
		req.Body.Close()
		if err != nil {
			// the sender could not produce the body (e.g. the caller's reader failed):
			// a real transport aborts the request.
			return nil, fmt.Errorf("simulated transport: reading request body: %w", err)
		}
	}
	ctx := req.Context()
	nr := &NetRequest{Method: req.Method, Host: req.URL.Host, Path: req.URL.Path, Query: req.URL.RawQuery,
		Header: req.Header.Clone(), Body: body, Ctx: ctx, Raw: req}
	if t := w.current(); t != nil {
		nr.Task = t.ID
	}
	key := fmt.Sprintf("%s %s%s?%s #%x", req.Method, req.URL.Host, req.URL.Path, req.URL.RawQuery, md5.Sum(body))
	key = key[:len(key)-24]
	rep := w.Park("net-send", key, nil, func() any {
		n.total++
		nr.Seq = n.total
		if err := ctx.Err(); err != nil {
			return &NetReply{Err: err}
		}
		r := n.Handler(nr)
		if r == nil {
			r = &NetReply{Err: ErrConnRefused}
		}
		if r.Latency <= 0 {
			r.Latency = time.Millisecond
		}
		return r
	}).(*NetReply)
	if rep.Err != nil && ctx.Err() != nil {
		// the context had already ended when the request was granted: do not race a timer
		// against ctx.Done() (select would pick at random)
		w.Park("net-cancelled", key, nil, nil)
		return nil, ctx.Err()
	}
	if rep.Hang {
		<-ctx.Done()
		w.Park("net-cancelled", key, nil, nil)
		return nil, ctx.Err()
	}
	t := time.NewTimer(rep.Latency)
	select {
	case <-t.C:
	case <-ctx.Done():
		t.Stop()
		w.Park("net-cancelled", key, nil, nil)
		return nil, ctx.Err()
	}
	w.Park("net-recv", key, nil, func() any {
		if n.OnDeliver != nil && ctx.Err() == nil {
			n.OnDeliver(nr, rep)
		}
		return nil
	})
	if err := ctx.Err(); err != nil {
		return nil, err
	}
	if rep.Err != nil {
		return nil, rep.Err
	}
	h := rep.Header
	if h == nil {
		h = http.Header{}
	} else {
		h = h.Clone()
	}
	resp := &http.Response{
		StatusCode: rep.Status, Status: strconv.Itoa(rep.Status) + " " + http.StatusText(rep.Status),
		Proto: "HTTP/1.1", ProtoMajor: 1, ProtoMinor: 1,
		Header: h, Request: req,
		ContentLength: int64(len(rep.Body)),
		Body:          &simBody{r: bytes.NewReader(rep.Body), err: rep.BodyErr, eofWithData: rep.EOFWithData},
	}
	if rep.NoLength {
		resp.ContentLength = -1
		resp.TransferEncoding = []string{"chunked"}
	} else if rep.SetCL {
		resp.ContentLength = rep.ContentLength
	}
	if resp.ContentLength >= 0 {
		h.Set("Content-Length", strconv.FormatInt(resp.ContentLength, 10))
	}
	if req.Method == "HEAD" {
		resp.Body = &simBody{r: bytes.NewReader(nil)}
	}
	return resp, nil
}

type simBody struct {
	r           *bytes.Reader
	err         error
	eofWithData bool
}

func (b *simBody) Read(p []byte) (int, error) {
	n, err := b.r.Read(p)
	if err == nil && b.eofWithData && b.r.Len() == 0 {
		err = io.EOF
	}
	if err == io.EOF && b.err != nil {
		err = b.err
	}
	return n, err
}
func (b *simBody) Close() error { return nil }

// CanonHeader renders selected headers canonically for logs.
func CanonHeader(h http.Header, names ...string) string {
	sort.Strings(names)
	s := ""
	for _, n := range names {
		if v := h.Get(n); v != "" {
			s += n + "=" + v + ";"
		}
	}
	return s
}

// HTTPTransport is the target of rewriter rule R10: code under test that builds its own
// *http.Transport (`Transport: &http.Transport{...}` in a struct literal) gets the transport the
// scenario registered for this run (World.DefaultTransport, normally a *Net) instead of one that
// would dial real sockets. Outside a simulated world, or when nothing is registered, the original
// transport is returned.
func HTTPTransport(orig http.RoundTripper) http.RoundTripper {
	if w := Cur(); w != nil && w.DefaultTransport != nil {
		return w.DefaultTransport
	}
	return orig
}
