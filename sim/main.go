package vsim

import (
	"encoding/json"
	"flag"
	"fmt"
	"hash/fnv"
	"os"
	"runtime/debug"
	"sort"
	"sync/atomic"
	"testing"
	"testing/synctest"
	"time"
)

// Spec is what the driver hands to a harness binary (-verif.spec file).
type Spec struct {
	Prop     string            `json:"prop"`
	Tier     string            `json:"tier"`
	Seed     uint64            `json:"seed"`
	First    int               `json:"first"`
	Runs     int               `json:"runs"`
	Replay   []int             `json:"replay,omitempty"` // replay exactly one run (index First)
	KeepLog  bool              `json:"keep_log,omitempty"`
	Samples  int               `json:"samples,omitempty"` // number of sample runs to write out in full
	Out      string            `json:"out"`
	Params   map[string]string `json:"params,omitempty"`
	MaxSteps int               `json:"max_steps,omitempty"`
	WallS    int               `json:"wall_s,omitempty"` // per-process wall budget; stop starting new runs after it
	RunWallS int               `json:"run_wall_s,omitempty"`
	Known    []KnownSig        `json:"known,omitempty"` // open known findings: counted, not reported
}

type KnownSig struct {
	Clause string `json:"clause"`
	Sig    string `json:"sig"`
}

// RunResult describes one simulated run.
type RunResult struct {
	Run         int               `json:"run"`
	Seed        uint64            `json:"seed"`
	Steps       int               `json:"steps"`
	Contended   int               `json:"contended_decisions"`
	SimSeconds  float64           `json:"sim_seconds"`
	Strategy    string            `json:"strategy"`
	Choices     []int             `json:"choices,omitempty"`
	Fingerprint string            `json:"fingerprint"`
	EndState    string            `json:"end_state,omitempty"`
	Probes      map[string]int    `json:"probes,omitempty"`
	Faults      map[string]int    `json:"faults,omitempty"`
	Notes       map[string]string `json:"notes,omitempty"`
	Violation   *Violation        `json:"violation,omitempty"`
	Infra       string            `json:"infra,omitempty"`
	Truncated   bool              `json:"truncated,omitempty"`
	Leaked      bool              `json:"leaked_goroutines,omitempty"`
	Log         []string          `json:"log,omitempty"`
}

// BatchResult is what one harness process writes.
type BatchResult struct {
	Prop        string         `json:"prop"`
	First       int            `json:"first"`
	Completed   int            `json:"completed"`
	NextRun     int            `json:"next_run"`
	StepsTotal  int64          `json:"steps_total"`
	Contended   int64          `json:"contended_total"`
	SimSeconds  float64        `json:"sim_seconds"`
	Truncated   int            `json:"truncated"`
	Leaked      int            `json:"leaked"`
	Probes      map[string]int `json:"probes"`
	Faults      map[string]int `json:"faults"`
	Strategies  map[string]int `json:"strategies"`
	KnownHits   map[string]int `json:"known_hits"`
	SchedHashes []uint64       `json:"sched_hashes"`      // distinct choice-vector hashes
	Nontrivial  []uint64       `json:"nontrivial_hashes"` // ... among runs with a fault fired or a contended decision
	EndStates   []uint64       `json:"end_state_hashes"`
	Samples     []*RunResult   `json:"samples,omitempty"`
	Violation   *RunResult     `json:"violation,omitempty"`
	Infra       string         `json:"infra,omitempty"`
	WallS       float64        `json:"wall_s"`
}

var specFlag = flag.String("verif.spec", "", "spec JSON file written by the driver")

func h64(s string) uint64 { h := fnv.New64a(); h.Write([]byte(s)); return h.Sum64() }

// Scenario is the body of one simulated run. It is called on the bubble's root goroutine.
type Scenario func(w *World, spec *Spec)

// Main runs the batch described by -verif.spec. Harness test files call it from one
// Test function.
func Main(t *testing.T, scenarios map[string]Scenario) {
	if *specFlag == "" {
		t.Skip("no -verif.spec")
	}
	raw, err := os.ReadFile(*specFlag)
	if err != nil {
		t.Fatal(err)
	}
	var spec Spec
	if err := json.Unmarshal(raw, &spec); err != nil {
		t.Fatal(err)
	}
	scen := scenarios[spec.Prop]
	if scen == nil {
		fmt.Fprintf(os.Stderr, "harness has no scenario for %s\n", spec.Prop)
		os.Exit(2)
	}
	if spec.Runs == 0 {
		spec.Runs = 1
	}
	if spec.RunWallS == 0 {
		spec.RunWallS = 120
	}
	br := &BatchResult{Prop: spec.Prop, First: spec.First, NextRun: spec.First,
		Probes: map[string]int{}, Faults: map[string]int{}, Strategies: map[string]int{}, KnownHits: map[string]int{}}
	sched, nontriv, ends := map[uint64]bool{}, map[uint64]bool{}, map[uint64]bool{}
	t0 := time.Now()
	write := func() {
		br.SchedHashes, br.Nontrivial, br.EndStates = keys(sched), keys(nontriv), keys(ends)
		br.WallS = time.Since(t0).Seconds()
		b, _ := json.Marshal(br)
		tmp := spec.Out + ".tmp"
		os.WriteFile(tmp, b, 0644)
		os.Rename(tmp, spec.Out)
	}
	// real-time watchdog (outside any bubble): a run that does not finish is an
	// infrastructure problem, never a violation.
	var curRun atomic.Int64
	var curStart atomic.Int64
	curStart.Store(time.Now().UnixNano())
	go func() {
		for {
			time.Sleep(time.Second)
			if time.Now().UnixNano()-curStart.Load() > int64(spec.RunWallS)*1e9 {
				br.Infra = fmt.Sprintf("watchdog: run %d (seed %d) did not finish within %ds of real time", curRun.Load(), spec.Seed, spec.RunWallS)
				fmt.Fprintln(os.Stderr, br.Infra)
				debug.SetTraceback("all")
				write()
				os.Exit(4)
			}
		}
	}()
	for i := 0; i < spec.Runs; i++ {
		run := spec.First + i
		if spec.WallS > 0 && time.Since(t0) > time.Duration(spec.WallS)*time.Second {
			break
		}
		curRun.Store(int64(run))
		curStart.Store(time.Now().UnixNano())
		keep := spec.KeepLog || len(br.Samples) < spec.Samples
		rr := RunOne(t, &spec, run, scen, keep)
		br.Completed++
		br.NextRun = run + 1
		br.StepsTotal += int64(rr.Steps)
		br.Contended += int64(rr.Contended)
		br.SimSeconds += rr.SimSeconds
		br.Strategies[rr.Strategy]++
		if rr.Truncated {
			br.Truncated++
		}
		if rr.Leaked {
			br.Leaked++
		}
		nf := 0
		for k, v := range rr.Probes {
			br.Probes[k] += v
		}
		for k, v := range rr.Faults {
			br.Faults[k] += v
			nf += v
		}
		sh := h64(fmt.Sprint(rr.Choices))
		sched[sh] = true
		if nf > 0 || rr.Contended > 0 {
			nontriv[sh] = true
		}
		if rr.EndState != "" {
			ends[h64(rr.EndState)] = true
		}
		if rr.Violation != nil && rr.Infra == "" && spec.Replay == nil {
			hit := false
			for _, k := range spec.Known {
				if k.Clause == rr.Violation.Clause && k.Sig == rr.Violation.Sig {
					br.KnownHits[k.Clause+"|"+k.Sig]++
					hit = true
				}
			}
			if hit {
				continue
			}
		}
		if rr.Violation != nil || rr.Infra != "" {
			if rr.Infra != "" {
				br.Infra = fmt.Sprintf("run %d: %s", run, rr.Infra)
			}
			br.Violation = rr
			break
		}
		if keep && len(br.Samples) < spec.Samples {
			br.Samples = append(br.Samples, rr)
		}
	}
	write()
}

func keys(m map[uint64]bool) []uint64 {
	r := make([]uint64, 0, len(m))
	for k := range m {
		r = append(r, k)
	}
	sort.Slice(r, func(i, j int) bool { return r[i] < r[j] })
	return r
}

// RunOne executes one run in a fresh bubble.
func RunOne(t *testing.T, spec *Spec, run int, scen Scenario, keepLog bool) (rr *RunResult) {
	rr = &RunResult{Run: run, Seed: spec.Seed}
	cfg := Config{Seed: spec.Seed, Run: run, Replay: spec.Replay, KeepLog: keepLog, MaxSteps: spec.MaxSteps}
	if spec.Replay != nil && len(spec.Replay) == 0 {
		cfg.Replay = []int{}
	}
	var w *World
	func() {
		defer func() {
			if r := recover(); r != nil {
				s := fmt.Sprint(r)
				if w != nil && (w.AllDone() || w.Failed() || w.truncated || w.finished) {
					// goroutines of the system under test left blocked at the end of the
					// bubble (killed nodes, abandoned runs): expected, not an error.
					rr.Leaked = true
					return
				}
				rr.Infra = "panic: " + s + "\n" + string(debug.Stack())
			}
		}()
		synctest.Test(t, func(t *testing.T) {
			w = NewWorld(cfg)
			defer w.Close()
			defer func() { w.simEnd = time.Since(w.start) }()
			defer func() {
				if r := recover(); r != nil {
					if _, ok := r.(Crashed); ok {
						return
					}
					w.Infra("scenario panic: %v\n%s", r, debug.Stack())
				}
			}()
			scen(w, spec)
			w.Logf("end of scenario")
			w.finished = true
		})
	}()
	if w == nil {
		if rr.Infra == "" {
			rr.Infra = "world was never created"
		}
		return rr
	}
	rr.Steps = w.steps
	rr.Contended = w.contended
	rr.SimSeconds = w.simEnd.Seconds()
	rr.Strategy = w.strategy
	rr.Choices = w.Choices()
	rr.Fingerprint = w.Fingerprint()
	rr.EndState = w.endState
	rr.Probes = w.probes
	rr.Faults = w.faults
	rr.Notes = w.notes
	rr.Violation = w.viol
	if w.infra != "" {
		rr.Infra = w.infra
	}
	rr.Truncated = w.truncated
	if keepLog {
		rr.Log = w.logLines
	}
	return rr
}
