package vsim

import "crypto/rand"

func cryptoRead(p []byte) (int, error) { return rand.Read(p) }
