package vsim

import (
	"fmt"
	"net/http"
	"strings"
	"testing"
)

// self-test of the kernel: three tasks contend on locks and a simulated network.
func scenSelf(w *World, spec *Spec) {
	var mu Mutex
	var rw RWMutex
	shared := 0
	net := NewNet(w, func(r *NetRequest) *NetReply {
		if w.Chance("drop", 200) {
			w.Fault("drop")
			return &NetReply{Err: ErrConnReset}
		}
		return &NetReply{Status: 200, Body: []byte("ok " + r.Path)}
	})
	for i := 0; i < 3; i++ {
		i := i
		w.Spawn(fmt.Sprintf("t%d", i), func() {
			for j := 0; j < 4; j++ {
				mu.Lock()
				shared++
				v := shared
				mu.Unlock()
				rw.RLock()
				w.Logf("saw %d", v)
				rw.RUnlock()
				req, _ := http.NewRequest("GET", fmt.Sprintf("http://n%d/x%d", i, j), nil)
				resp, err := net.Do(req)
				if err == nil {
					resp.Body.Close()
				}
				if j == 2 {
					rw.Lock()
					shared += 10
					rw.Unlock()
				}
			}
		})
	}
	w.Run(nil)
	if !w.AllDone() {
		w.Violation("deadlock", "%s", strings.Join(w.Blocked(), "; "))
	}
	if shared != 42 {
		w.Violation("count", "shared=%d", shared)
	}
	w.SetEndState(fmt.Sprint(shared))
}

func TestKernelDeterminism(t *testing.T) {
	spec := &Spec{Seed: 5}
	seen := map[string]bool{}
	for run := 0; run < 200; run++ {
		a := RunOne(t, spec, run, scenSelf, true)
		b := RunOne(t, spec, run, scenSelf, true)
		if a.Violation != nil || a.Infra != "" {
			t.Fatalf("run %d: %+v %s", run, a.Violation, a.Infra)
		}
		if a.Fingerprint != b.Fingerprint {
			t.Fatalf("run %d nondeterministic", run)
		}
		// replay from the recorded choices must give the same fingerprint
		rs := *spec
		rs.Replay = a.Choices
		c := RunOne(t, &rs, run, scenSelf, true)
		if c.Fingerprint != a.Fingerprint {
			for i := range a.Log {
				if i >= len(c.Log) || a.Log[i] != c.Log[i] {
					t.Logf("A: %s", a.Log[i])
					if i < len(c.Log) {
						t.Logf("C: %s", c.Log[i])
					}
					break
				}
			}
			t.Fatalf("run %d replay diverged", run)
		}
		seen[a.Fingerprint] = true
	}
	t.Logf("distinct=%d", len(seen))
}

func TestKernelMain(t *testing.T) { Main(t, map[string]Scenario{"SELF": scenSelf}) }
