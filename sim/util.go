package vsim

import (
	"cmp"
	"fmt"
	"sort"
)

// SortedKeys is used by the rewritten map range (rule R4).
func SortedKeys[K cmp.Ordered, V any](m map[K]V) []K {
	ks := make([]K, 0, len(m))
	for k := range m {
		ks = append(ks, k)
	}
	sort.Slice(ks, func(i, j int) bool { return ks[i] < ks[j] })
	return ks
}

// SortedKeysBy orders printable comparable keys by their %v rendering.
func SortedKeysBy[K comparable, V any](m map[K]V) []K {
	ks := make([]K, 0, len(m))
	for k := range m {
		ks = append(ks, k)
	}
	sort.Slice(ks, func(i, j int) bool { return fmt.Sprint(ks[i]) < fmt.Sprint(ks[j]) })
	return ks
}
