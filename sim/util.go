package vsim

import (
	"cmp"
	"fmt"
	"sort"
)

// SortedKeys is used by the rewritten map range (rule R4).
func SortedKeys[K cmp.Ordered, V any](m map[K]V) []K {
	ks := make([]K, 0, len(m))
	for k := range m {
		ks = append(ks, k)
	}
	sort.Slice(ks, func(i, j int) bool { return ks[i] < ks[j] })
	return ks
}

// SortedKeysBy orders printable comparable keys by their %v rendering.
func SortedKeysBy[K comparable, V any](m map[K]V) []K {
	ks := make([]K, 0, len(m))
	for k := range m {
		ks = append(ks, k)
	}
	sort.Slice(ks, func(i, j int) bool { return fmt.Sprint(ks[i]) < fmt.Sprint(ks[j]) })
	return ks
}

// ---- R6: deterministic stand-ins for crypto/rand and math/rand ---------------------------

func randStream() *splitmix {
	w := Cur()
	if w == nil {
		return nil
	}
	w.mu.Lock()
	defer w.mu.Unlock()
	if w.codeRand == nil {
		w.codeRand = newSplitmix(w.cfg.Seed*0x2545F4914F6CDD1D + uint64(w.cfg.Run) + 99)
	}
	return w.codeRand
}

// Values come from a per-run stream. Callers in instrumented code draw under their own
// locks or from a single task, so the order of draws is schedule-determined.
func RandRead(p []byte) (int, error) {
	w := Cur()
	s := randStream()
	if s == nil {
		return cryptoRead(p)
	}
	w.mu.Lock()
	for i := range p {
		p[i] = byte(s.next())
	}
	w.mu.Unlock()
	return len(p), nil
}

func randU64() uint64 {
	w := Cur()
	s := randStream()
	if s == nil {
		var b [8]byte
		cryptoRead(b[:])
		var v uint64
		for _, x := range b {
			v = v<<8 | uint64(x)
		}
		return v
	}
	w.mu.Lock()
	defer w.mu.Unlock()
	return s.next()
}

func RandFloat64() float64     { return float64(randU64()>>11) / (1 << 53) }
func RandInt63() int64         { return int64(randU64() >> 1) }
func RandInt() int             { return int(randU64() >> 1) }
func RandIntn(n int) int       { return int(randU64() % uint64(n)) }
func RandInt63n(n int64) int64 { return int64(randU64() % uint64(n)) }
func RandInt31n(n int32) int32 { return int32(randU64() % uint64(n)) }
func RandUint32() uint32       { return uint32(randU64()) }
func RandPerm(n int) []int {
	p := make([]int, n)
	for i := range p {
		j := RandIntn(i + 1)
		p[i] = p[j]
		p[j] = i
	}
	return p
}

// Stamp returns the next value of a global event sequence (history invoke/return stamps).
func (w *World) Stamp() int64 {
	w.mu.Lock()
	defer w.mu.Unlock()
	w.stamp++
	return w.stamp
}

// ParkedRes lists the resource strings of the requests of one kind that are parked right
// now (root only, at quiescence), sorted.
func (w *World) ParkedRes(kind string) []string {
	w.mu.Lock()
	defer w.mu.Unlock()
	var r []string
	for _, e := range w.parked {
		if e.kind == kind {
			r = append(r, e.resName())
		}
	}
	sort.Strings(r)
	return r
}

// RunIndex is the index of this run within the batch sequence (same seed, different index).
func (w *World) RunIndex() int { return w.cfg.Run }
