package main

// Harness = one test binary built from a repository package plus injected harness files.
type InstrSpec struct {
	Pkg   string   // repository-relative package dir
	Files []string // base names ("fs_*" prefix patterns allowed)
	Rules string   // comma-separated rewriter rules
}

type Harness struct {
	Name   string
	Pkg    string            // package the harness files are injected into
	Inject map[string]string // harness file -> other repository package dir (default Pkg)
	Instr  []InstrSpec
}

type Prop struct {
	ID, Harness, Level                         string
	QuickRuns, QuickChunk, QuickWallS          int
	ThoroughRuns, ThoroughChunk, ThoroughWallS int
	MaxSteps                                   int
	RunWallS                                   int // real-time watchdog per run (0: 120 s)
	Params                                     map[string]string
	Rule                                       string
	Real, Stub                                 []string
	Assumptions                                []string
	ExpectProbes                               []string
	PureRideAlong                              []string
	LevelText, LevelNote, Technique, DesignRef string
	Also                                       []string // sub-checks (other harnesses) that decide further clauses of this property
	Sub                                        bool     // a sub-check: run only as part of its parent, not registered on its own
	parent                                     *Prop
}

var harnesses []*Harness

var props []*Prop

func propByID(id string) *Prop {
	for _, p := range props {
		if p.ID == id {
			return p
		}
	}
	return nil
}

func harnessByName(n string) *Harness {
	for _, h := range harnesses {
		if h.Name == n {
			return h
		}
	}
	infra("unknown harness %s", n)
	return nil
}

// Reported is the property id under which findings of this (sub-)check are reported.
func (p *Prop) Reported() string {
	if p.parent != nil {
		return p.parent.ID
	}
	return p.ID
}
