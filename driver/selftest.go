package main

import (
	"fmt"
	"os"
	"time"
)

// selftestDeterminism: for each property, N run indexes are executed in fresh processes
// at GOMAXPROCS 1, 4 and 16, twice each, and the event-log fingerprints must agree.
func selftestDeterminism(args []string) {
	n := envInt("VERIF_DET_RUNS", 40)
	fail := 0
	for _, p := range props {
		if len(args) > 0 && args[0] != p.Harness && args[0] != p.ID {
			continue
		}
		bi := buildHarness(harnessByName(p.Harness))
		type res struct{ fp []string }
		var ref []string
		for _, procs := range []string{"1", "4", "16", "1", "4", "16"} {
			os.Setenv("VERIF_GOMAXPROCS", procs)
			var fps []string
			for run := 0; run < n; run++ {
				spec := Spec{Prop: p.ID, Tier: "quick", Seed: seedEnv(), First: run, Runs: 1, MaxSteps: p.MaxSteps, RunWallS: p.RunWallS, Params: p.Params, Samples: 1}
				br, err := runBatch(bi, p, spec, 5*time.Minute+time.Duration(p.RunWallS)*time.Second)
				if err != nil {
					infra("%v", err)
				}
				fp := "?"
				if len(br.Samples) > 0 {
					fp = br.Samples[0].Fingerprint
				} else if br.Violation != nil {
					fp = "V:" + br.Violation.Fingerprint
				}
				fps = append(fps, fp)
			}
			if ref == nil {
				ref = fps
				continue
			}
			for i := range fps {
				if fps[i] != ref[i] {
					fmt.Printf("NONDETERMINISM %s run %d GOMAXPROCS=%s\n", p.ID, i, procs)
					fail++
				}
			}
		}
		fmt.Printf("determinism %s: %d runs x 6 processes (GOMAXPROCS 1/4/16 twice): %d mismatches\n", p.ID, n, fail)
	}
	if fail > 0 {
		exit(2)
	}
}
