package main

func init() {
	harnesses = append(harnesses, &Harness{Name: "keepclient", Pkg: "sdk/go/keepclient", Instr: []InstrSpec{{Pkg: "sdk/go/keepclient", Files: []string{"block_cache.go", "root_sorter.go"}, Rules: "R1,R2,R4"},
		// the weight function of the rendezvous order: statement-level preemption (C12 runs a concurrent ranker)
		{Pkg: "sdk/go/keepclient", Files: []string{"support.go"}, Rules: "R9:Md5String"}}})
	props = append(props, &Prop{ID: "C11", Harness: "keepclient", Level: "exploration",
		QuickRuns: 20000, QuickChunk: 500, QuickWallS: 60, ThoroughRuns: 3000000, ThoroughChunk: 5000, ThoroughWallS: 600,
		Rule:         "C11: per run a service set (1-5 writable, 0-2 read-only, disk/proxy), wanted replicas 1-3, retry limit 0-3 and a per-(service,attempt) outcome plan are drawn; PutB/PutHB/PutHR are driven against the simulated transport, which also decides response order.",
		Real:         []string{"sdk/go/keepclient: KeepClient.PutB/PutHB/PutHR, putReplicas, uploadToKeepServer, root sorter, service discovery tables"},
		Stub:         []string{"Keep services (scripted per-attempt outcomes) behind the simulated keepclient.HTTPClient", "arvadosclient service discovery (service roots are installed with SetServiceRoots)"},
		ExpectProbes: []string{"put-ok", "put-insufficient", "retry-round", "replicas-header-2"},
		LevelText:    "seeded exploration of per-attempt service outcomes, response orders and configurations against the real putReplicas; every Put is judged by an oracle that counts the replicas confirmed in 200 responses actually delivered before the return. Sampling, not exhaustive.",
		LevelNote:    "trusted: the simulated transport (request bodies fully read before the request is parked), the oracle's accounting, go1.26.8 synctest; service discovery over the API is replaced by LoadKeepServicesFromJSON",
		Technique:    "deterministic simulation: real keepclient Put path over a simulated transport with per-attempt fault injection and seeded response ordering; history oracle over delivered responses",
		DesignRef:    "5.11"})
	props = append(props, &Prop{ID: "C03", Harness: "keepclient", Level: "exploration",
		QuickRuns: 20000, QuickChunk: 500, QuickWallS: 60, ThoroughRuns: 3000000, ThoroughChunk: 5000, ThoroughWallS: 600, MaxSteps: 100000,
		Rule:         "C03: per run 1-4 services, retry limit, a shared block cache of 1-4 entries, 1-6 blocks (sizes 0..1000) and 1-6 concurrent reader tasks issuing streaming Get (to EOF, or exactly size bytes + Close), cached ReadAt and reads of collection files spanning the blocks; each request draws the service behaviour from {correct, flipped bit, short body with wrong/no/declared-full Content-Length, long body, Content-Length != hint, chunked, empty 200, 404, 408/429/500/503, connection error, slow} over every retry round; the scheduler orders responses. Afterwards faults stop and every block is re-read through the same cache.",
		Real:         []string{"sdk/go/keepclient: KeepClient.Get/ReadAt/getOrHead, HashCheckingReader, BlockCache (instrumented: sim mutex + tasks), CollectionFileReader", "sdk/go/arvados collection filesystem read path (uninstrumented)"},
		Stub:         []string{"Keep services behind the simulated keepclient.HTTPClient"},
		ExpectProbes: []string{"get-ok", "get-read-error", "readat-ok", "readat-error", "file-read-ok", "file-read-error"},
		LevelText:    "seeded exploration of per-request corruption behaviours x retry rounds x response orders x concurrent readers sharing a small cache; every byte handed out without an error is compared with the block the locator names; recovery once faults stop shows no poisoned cache entry",
		LevelNote:    "trusted: the simulated transport's body/Content-Length emulation (NetReply), the oracle's byte comparison; locators always carry the true hash and size (a wrong locator is not a server fault)",
		Technique:    "deterministic simulation: real Keep client read paths over a fault-injecting simulated transport with seeded response ordering; byte-exact oracle + bounded recovery after faults stop",
		DesignRef:    "5.3"})
	props = append(props, &Prop{ID: "C12", Harness: "keepclient", Level: "exploration", Also: []string{"C12B"},
		QuickRuns: 10000, QuickChunk: 500, QuickWallS: 30, ThoroughRuns: 3000000, ThoroughChunk: 5000, ThoroughWallS: 600, MaxSteps: 100000,
		Rule:          "C12: per run 1-32 services with 27-character, short and odd-length UUIDs, some read-only, a block hash, 0-3 locator hints (+K@ 5-character cluster form, 27-character known/unknown gateway form, other hints, placed around a signature hint); a GET that misses everywhere (404 / 500 / connection error per request, with retries), the same GET against the service set plus/minus one service, and a PUT under refusals are driven over the simulated wire and the ARRIVAL ORDER of requests is the observed history.",
		Real:          []string{"sdk/go/keepclient: getSortedRoots, NewRootSorter, getOrHead, putReplicas, service tables (LoadKeepServicesFromJSON)", "services/keep-balance balanceBlock/ComputeChangeSets (scenario C12B in the balance harness, run by this check as a second batch)"},
		Stub:          []string{"Keep services that miss/refuse behind the simulated transport"},
		ExpectProbes:  []string{"read-with-hints", "membership-checked", "write-under-refusals"},
		PureRideAlong: []string{"the order function itself (md5-based weight) is pure; it is observed here as an ordering invariant over recorded wire histories, not called directly"},
		LevelText:     "seeded exploration of service sets, hashes, hints and miss/refusal outcomes; oracle = independent reference order written from the property text, compared with the sequence (reads) and prefix-closed set (writes) of requests observed on the simulated wire, incl. retries and a membership change",
		LevelNote:     "trusted: reference order implementation (md5hex(hash+uuid[12:]) descending), the transport's arrival log; the Python client (keep.py) is not executed",
		Technique:     "deterministic simulation: real Keep client read/write paths against missing/refusing simulated services; history-ordering invariant against an independent reference order",
		DesignRef:     "5.12"})
}
