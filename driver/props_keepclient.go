package main

func init() {
	harnesses = append(harnesses, &Harness{Name: "keepclient", Pkg: "sdk/go/keepclient"})
	props = append(props, &Prop{ID: "C11", Harness: "keepclient", Level: "exploration",
		QuickRuns: 20000, QuickChunk: 500, QuickWallS: 60, ThoroughRuns: 3000000, ThoroughChunk: 5000, ThoroughWallS: 600,
		Rule:         "C11: per run a service set (1-5 writable, 0-2 read-only, disk/proxy), wanted replicas 1-3, retry limit 0-3 and a per-(service,attempt) outcome plan are drawn; PutB/PutHB/PutHR are driven against the simulated transport, which also decides response order.",
		Real:         []string{"sdk/go/keepclient: KeepClient.PutB/PutHB/PutHR, putReplicas, uploadToKeepServer, root sorter, service discovery tables"},
		Stub:         []string{"Keep services (scripted per-attempt outcomes) behind the simulated keepclient.HTTPClient", "arvadosclient service discovery (service roots are installed with SetServiceRoots)"},
		ExpectProbes: []string{"put-ok", "put-insufficient", "retry-round", "replicas-header-2"},
		LevelText:    "seeded exploration of per-attempt service outcomes, response orders and configurations against the real putReplicas; every Put is judged by an oracle that counts the replicas confirmed in 200 responses actually delivered before the return. Sampling, not exhaustive.",
		LevelNote:    "trusted: the simulated transport (request bodies fully read before the request is parked), the oracle's accounting, go1.26.8 synctest; service discovery over the API is replaced by LoadKeepServicesFromJSON",
		Technique:    "deterministic simulation: real keepclient Put path over a simulated transport with per-attempt fault injection and seeded response ordering; history oracle over delivered responses",
		DesignRef:    "5.11"})
}
