package main

func init() {
	harnesses = append(harnesses, &Harness{Name: "keepstore", Pkg: "services/keepstore", Instr: []InstrSpec{{Pkg: "services/keepstore",
		Files: []string{"unix_volume.go", "pipe_adapters.go", "handlers.go", "trash_worker.go", "work_queue.go", "collision.go"}, Rules: "R1,R2,R3,R5,R7,R8"}}})
	ksReal := []string{"services/keepstore: MakeRESTRouter, handlers (GET/HEAD/PUT/TOUCH/DELETE/index/trash/untrash), GetBlock/PutBlock/CompareAndTouch, collision code, pipe adapters, work queue, trash worker, UnixVolume on real tmpfs directories (instrumented: every filesystem call is a scheduler/fault point; goroutines are tasks)"}
	props = append(props, &Prop{ID: "C02", Harness: "keepstore", Level: "fault_enumeration",
		QuickRuns: 6000, QuickChunk: 150, QuickWallS: 60, ThoroughRuns: 1000000, ThoroughChunk: 1000, ThoroughWallS: 600, MaxSteps: 50000,
		Rule: "C02: per run 1-2 Directory volumes (read-only/Serialize drawn), copy chunk size {64KiB,1,3,16}, block size around chunk boundaries, pre-existing copy per volume {none, intact, corrupt (bit flip/truncated/extended), in trash}, 1-2 concurrent PUTs of the block, and ONE fault at the i-th filesystem step of the server (i drawn 1..40): kill the process / the client hangs up / the step fails with EIO, ENOSPC, EACCES or a short write / kill right after the acknowledgement. Then the process is always killed and a new one is started on the same directories; GET, HEAD, /index and every /mounts/<uuid>/blocks are judged. Crash points are seed-directed samples of the write path's steps, not an exhaustive sweep.",
		Real: ksReal, Stub: []string{"HTTP client (requests are delivered by calling the real router's ServeHTTP from a task of the node); kernel/tmpfs are real and trusted; kill = no further instruction, completed syscalls durable (process death, not power loss)"},
		ExpectProbes: []string{"acked", "not-acked", "kill-at-copy-write", "kill-at-rename", "kill-at-chtimes", "kill-at-tempfile", "kill-at-close", "kill-at-mkdir", "hangup-at-copy-write", "error-at-rename", "pre-existing-corrupt"},
		LevelText: "seeded fault enumeration over the filesystem steps of the Directory-volume write path (kill, client disconnect, errno, short write at a drawn step) x block sizes x pre-existing copies x 1-2 concurrent writers; durability and atomicity judged after a restart of the real server code on the same directories",
		LevelNote: "trusted: the rewriter's coverage of filesystem calls (R7 shims + R8 points in the six instrumented files), kernel and tmpfs; process kill only (keepstore issues no fsync; power loss is out of scope)",
		Technique: "deterministic simulation with crash/fault injection at every filesystem step (source-rewritten shims), restart on surviving durable state, durability/atomicity oracle over post-restart reads and indexes",
		DesignRef: "5.2"})
}
