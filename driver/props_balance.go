package main

func init() {
	harnesses = append(harnesses, &Harness{Name: "balance", Pkg: "services/keep-balance",
		// R2 + R9 inside GetCurrentState only (ComputeChangeSets starts one worker per CPU: as tasks they would make a run depend on GOMAXPROCS): its index, collection-fetch and collection-processing goroutines are simulator
		// tasks that may lose the processor before any statement of that function (w.PreemptOn)
		Instr: []InstrSpec{{Pkg: "services/keep-balance", Files: []string{"balance.go"}, Rules: "R2:GetCurrentState,R4,R9:GetCurrentState"},
			{Pkg: "sdk/go/keepclient", Files: []string{"root_sorter.go"}, Rules: "R1"}}})
	props = append(props, &Prop{ID: "C05", Harness: "balance", Level: "exploration",
		QuickRuns: 4000, QuickChunk: 100, QuickWallS: 40, ThoroughRuns: 600000, ThoroughChunk: 500, ThoroughWallS: 600,
		Rule:         "C05: per run a cluster layout is drawn (1-16 keepstore services x 1-3 mounts, mostly <= 4x2; read-only flags on mounts and services; devices with blank, unique or shared DeviceID, replication 1-3 and storage classes; 1-12 blocks on any subset of devices with mtimes old / new / colliding / straddling the signature TTL; 0-6 collections with replication_desired null or 0-4 and storage classes); ONE real Balancer.Run sweeps it over the simulated transport; every trash list received is then executed on the physical device table under keepstore's rules while pulls fail (or a seeded subset succeeds).",
		Real:         []string{"services/keep-balance: Balancer.Run end to end (DiscoverKeepServices, discoverMounts, cleanupMounts, CheckSanityEarly/Late, ClearTrashLists, GetCurrentState, ComputeChangeSets/balanceBlock, CommitPulls, CommitTrash), EachCollection, ChangeSet JSON", "sdk/go/arvados: Client, KeepService.Mounts/IndexMount (index parser), EachKeepService", "sdk/go/keepclient: RootSorter"},
		Stub:         []string{"Arvados API model (keep_services, users/current, discovery document, collections list with filters/order/limit/count/select/include_trash/include_old_versions)", "keepstore models owning a physical device table (mounts, per-mount index, trash and pull list receivers, trash execution under keepstore's mtime/TTL/read-only rules)"},
		ExpectProbes: []string{"sweep-committed", "trash-requested", "trash-executed", "pull-requested", "device-shared", "replica-mtime-collision", "block-lost", "layout-big"},
		LevelText:    "seeded exploration of cluster layouts and replica ages; the real sweep's trash and pull lists are judged request by request (age against the TTL at arrival, read-only mounts and services, nothing while under-replicated, pull targets and sources) and the trash lists are executed on a device model, after which replication per block and storage class over distinct physical devices must be >= min(desired, before); blocks held nowhere must appear in the lost-blocks report. Sampling, not the exhaustive 4x2 enumeration the quantifier mentions.",
		LevelNote:    "trusted: the device model (replication and storage classes are attributes of the device, shared by all its mount views), the API model, the oracle's reading of 'too new' (younger than the TTL when the trash request arrives); balance.go map ranges are iterated in sorted order (R4), trash/pull lists are canonicalised before use. In half of the runs the API model returns attributes that were not selected (as upstream's stub servers do) so that balanceBlock's storage-class logic is explored although EachCollection does not select storage_classes_desired.",
		Technique:    "deterministic simulation: real keep-balance sweep over a simulated transport against API and keepstore models; injected fault = all (or some) pulls fail; trash lists executed on a physical device model; invariant and request-legality oracles",
		DesignRef:    "5.5"})
	props = append(props, &Prop{ID: "C06", Harness: "balance", Level: "exploration", Also: []string{"C06K"},
		QuickRuns: 8000, QuickChunk: 150, QuickWallS: 40, ThoroughRuns: 900000, ThoroughChunk: 750, ThoroughWallS: 600,
		Rule:         "C06: each run draws one of three parts. (a) the real EachCollection pages through an API model holding 0-200 collections with timestamp ties of drawn multiplicity, page size 1..N (client knob and/or server cap, optional short pages) while 0..k modify/add/delete mutations (fresh modified_at) are applied between any two requests; (b) a well-formed index of 0-65 entries cut at a drawn byte with four framings (Content-Length full + unexpected EOF, no length + EOF, chunked + unexpected EOF, short consistent length) is served to arvados.KeepService.IndexMount and keepclient.GetIndex; (c) a whole Balancer.Run in which the k-th request (k drawn) fails with 500/502/503, connection reset/refused or a truncated body.",
		Real:         []string{"services/keep-balance: EachCollection, countCollections, Balancer.Run/GetCurrentState error paths", "sdk/go/arvados: Client.RequestAndDecode, KeepService.index", "sdk/go/keepclient: KeepClient.GetIndex"},
		Stub:         []string{"Arvados API model (collections list as documented)", "keepstore models (index, trash, pull)", "simulated transport with truncation / status / connection faults"},
		ExpectProbes: []string{"scan-ok", "page-boundary-inside-tie", "exact-timestamp-cursor", "full-page-of-already-sent-items", "index-cut-at-line-end", "index-cut-before-terminator", "index-complete-accepted", "abort-fault-on-index", "abort-fault-on-collections"},
		LevelText:    "seeded exploration of collection populations x page sizes x mutation schedules (completeness-or-error oracle against the API model's table), of index truncation points x framings for both index readers (every proper prefix must be an error), and of single-request failures of a sweep (after a failed index or collection fetch Run must fail and no non-empty trash list and no pull list may arrive)",
		LevelNote:    "trusted: the API model's list semantics (written from doc/api/methods), fresh modified_at = simulated now (strictly later than every earlier timestamp), the transport's framing of truncated bodies; the keepstore writer side of the index terminator is checked in the keepstore harness, not here",
		Technique:    "deterministic simulation with fault injection: mutations between page requests, truncated/failed responses at drawn requests; completeness and abort oracles over the recorded wire history",
		DesignRef:    "5.6"})
	// C12B is the keep-balance clause of C12 (scenario only; folded into C12 by the keepclient side).
	props = append(props, &Prop{ID: "C12B", Harness: "balance", Level: "exploration", Sub: true,
		QuickRuns: 2000, QuickChunk: 100, QuickWallS: 25, ThoroughRuns: 200000, ThoroughChunk: 500, ThoroughWallS: 300,
		Rule:         "C12B: 1-32 services with 27-character and other uuids, one empty writable mount each, 1-6 blocks held by 1-3 servers, k=1-4 replicas wanted; one real sweep; pull targets compared with the reference rendezvous order.",
		Real:         []string{"services/keep-balance Balancer.Run", "sdk/go/keepclient RootSorter"},
		Stub:         []string{"API model", "keepstore models"},
		ExpectProbes: []string{"pull-expected", "uuid-not-27-chars", "single-replica-to-first-server"},
		LevelText:    "seeded exploration; pull targets must be the first k servers of the reference order that lack the block",
		LevelNote:    "temporary registration while the balance harness is developed; to be merged into C12",
		Technique:    "deterministic simulation",
		DesignRef:    "5.12"})
}
