package main

func init() {
	harnesses = append(harnesses, &Harness{Name: "copier", Pkg: "lib/crunchrun",
		Inject: map[string]string{"export_arvados.go": "sdk/go/arvados"},
		Instr: []InstrSpec{
			{Pkg: "sdk/go/arvados", Files: []string{"fs_*", "throttle.go", "contextgroup.go"}, Rules: "R1,R2,R3,R4,R5"},
			{Pkg: "lib/crunchrun", Files: []string{"copier.go"}, Rules: "R4"},
		}})
	props = append(props, &Prop{ID: "C17", Harness: "copier", Level: "exploration",
		QuickRuns: 8000, QuickChunk: 200, QuickWallS: 50, ThoroughRuns: 1000000, ThoroughChunk: 1000, ThoroughWallS: 600, MaxSteps: 100000,
		Rule:         "C17: per run an output directory is generated on a real tmpfs (depth <= 3, <= 14 entries, files of 0..3 blocks under a block limit of 1-64 bytes, names with spaces, colons, backslashes, backslash-digit sequences and non-ASCII bytes; relative and absolute symlinks to files, directories, other links, into mounted collections, to secrets, to themselves, to ancestors, to paths outside every mount, to ordinary neighbours whose path merely starts with the path of a mount point or secret, and to outside paths that merely start with a mount's path), 0-2 read-only collection mounts (generated manifests, beside or beneath the output path, optionally with a mount sub-path) and 0-2 secret mounts; the real copier runs while the simulator delays, reorders and (in half of the runs) fails the Keep writes issued by the per-directory flushes.",
		Real:         []string{"lib/crunchrun copier (Copy, walkMount, walkMountsBelow, walkHostFS, copyFile; map ranges sorted), sdk/go/manifest Extract, sdk/go/arvados collection filesystem (instrumented), host filesystem I/O (real)"},
		Stub:         []string{"Keep (content-addressed map; PutB/ReadAt parked calls)", "API client (collection lookup by portable data hash)"},
		ExpectProbes: []string{"copy-ok", "expected-error", "link-into-mount", "link-chain", "collection-mounted-below-output", "copy-failed-under-keep-faults", "link-to-neighbour-of-mount"},
		LevelText:    "seeded exploration of output trees x mounts x Keep-write schedules and failures; oracle = round-trip equality between the saved manifest (read by the independent spec-derived manifest reader over the Keep model) and an independent walk of the MODEL of the tree that applies the documented link rules; escaping or cyclic links must yield an error, secrets must be absent, mounted content must be referenced by existing blocks",
		LevelNote:    "trusted: the expected-tree walker (written from the crunch-run documentation of output handling: links are resolved lexically, an empty directory may be carried by a zero-length .keep file), the reference manifest reader; symlinks whose path passes THROUGH another symlink, links to missing paths inside a mounted collection and writable collection mounts are not generated (outcome not specified by the property)",
		Technique:    "deterministic simulation: real copier + instrumented collection filesystem with simulated Keep (delay/reorder/failure of flush writes) over real host-filesystem trees; round-trip oracle against an independent model walk",
		DesignRef:    "5.17"})
}
