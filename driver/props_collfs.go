package main

func init() {
	harnesses = append(harnesses, &Harness{Name: "collfs", Pkg: "sdk/go/arvados", Instr: []InstrSpec{{Pkg: "sdk/go/arvados", Files: []string{"fs_*", "throttle.go", "contextgroup.go"}, Rules: "R1,R2,R3,R4,R5"}}})
	props = append(props, &Prop{ID: "C08", Harness: "collfs", Level: "exploration",
		QuickRuns: 12000, QuickChunk: 300, QuickWallS: 60, ThoroughRuns: 2000000, ThoroughChunk: 2000, ThoroughWallS: 600, MaxSteps: 200000, RunWallS: 600,
		Rule:         "C08: per run a block limit (1-64 bytes), writer throttle, optional initial manifest, name set and an operation sequence (geometric length) are drawn; one worker applies it to the real collection filesystem and to an in-memory model in lockstep while background Keep writes complete in scheduler-chosen order, possibly many operations later.",
		Real:         []string{"sdk/go/arvados collection filesystem (fs_base, fs_collection, fs_filehandle, throttle, contextgroup), instrumented: every lock acquisition and goroutine spawn is a scheduler decision"},
		Stub:         []string{"Keep (content-addressed map behind PutB/ReadAt/LocalLocator, every call a parked point)", "API client (records collection updates from Sync)"},
		ExpectProbes: []string{"write-spans-blocks", "explicit-flush", "open-error", "rename-replaces-file"},
		LevelText:    "seeded exploration of operation histories x background-flush completion schedules; op-by-op refinement check against a plain in-memory filesystem model, plus size==sum(segments) invariant and an end-of-run full comparison",
		LevelNote:    "trusted: the model filesystem (POSIX-like rules as the property lists them), the Keep stub, the rewriter (sync->sim locks, go->tasks, sorted map ranges); operations whose outcome the property does not specify (opening directories for writing, directory renamed onto an existing entry, O_EXCL without O_CREATE) are not generated",
		Technique:    "deterministic simulation: instrumented collection filesystem under a seeded lock-level scheduler with controllable Keep-write completion; refinement against an executable reference model",
		DesignRef:    "5.8"})
	props = append(props, &Prop{ID: "C09", Harness: "collfs", Level: "exploration",
		QuickRuns: 10000, QuickChunk: 250, QuickWallS: 60, ThoroughRuns: 2000000, ThoroughChunk: 2000, ThoroughWallS: 600, MaxSteps: 200000, RunWallS: 600,
		Rule:         "C09: C08's workloads (half of the runs with names containing space, colon, backslash, backslash-digit sequences, control and non-ASCII bytes) plus a Keep write failure plan drawn per run: none / the k-th write / rate p / only background writes / only writes issued by a save; completion order and delay of writes chosen by the scheduler. Every save is judged; the run ends with one save under faults and one after faults stopped.",
		Real:         []string{"sdk/go/arvados collection filesystem incl. marshalManifest, flush, commitBlock, pruneMemSegments, loadManifest (instrumented)"},
		Stub:         []string{"Keep (content-addressed map; failure decided at the instant the write is granted)", "API client (records the manifest sent by Sync)"},
		ExpectProbes: []string{"save-checked", "save-failed", "put-failed-during-save", "put-failed-in-background"},
		LevelText:    "seeded exploration of histories x Keep-write failure patterns x completion schedules; every successful save is parsed by an independent spec-derived manifest reader and compared (directories incl. empty ones, names, bytes) with the model and with a second real filesystem loaded from the text; locator provenance checked; failed saves must leave all data readable and a later save must succeed",
		LevelNote:    "trusted: the reference manifest reader written from manifest-format.html.textile.liquid (octal escapes generalised from \\040; 0:0:\\056 as the empty-directory marker), the Keep stub, the model filesystem",
		Technique:    "deterministic simulation with injected Keep write failures; oracle = spec-derived reference parser + executable filesystem model + block provenance log",
		DesignRef:    "5.9"})
	props = append(props, &Prop{ID: "C13", Harness: "collfs", Level: "exploration",
		QuickRuns: 6000, QuickChunk: 150, QuickWallS: 60, ThoroughRuns: 1000000, ThoroughChunk: 1000, ThoroughWallS: 600, MaxSteps: 300000, RunWallS: 600,
		Rule:         "C13: 2-8 worker tasks (own files, shared directories), 1-2 tasks calling Flush/MarshalManifest/Sync and 0-2 tasks reading other workers' files, block limit 1-16 bytes so that almost every write starts a background flush; EVERY lock acquisition inside the filesystem, every goroutine spawn and every Keep write/read is a scheduler decision; Keep writes fail at a drawn rate and complete in scheduler-chosen order.",
		Real:         []string{"sdk/go/arvados collection filesystem (instrumented: sim locks incl. Go's RWMutex writer-preference protocol, tasks, sorted map ranges)"},
		Stub:         []string{"Keep", "API client"},
		ExpectProbes: []string{"foreign-read", "concurrent-save-checked", "porcupine-ok", "put-failed-in-background"},
		LevelText:    "seeded exploration of lock-level interleavings and Keep-write fault sequences; oracles: deadlock freedom (kernel), per-owner sequential model for every file's final content, porcupine linearizability of cross-worker reads per file, snapshot-window consistency of every manifest saved during the activity, C09's save oracle on the final save",
		LevelNote:    "trusted: kernel lock models, porcupine v1.3.0, the per-path version-window oracle (a saved content must be one the file held between the save's invoke and return); the race detector is not part of the registered check (VERIF_RACE=1 builds the same deterministic runs with -race)",
		Technique:    "deterministic simulation: seeded scheduler deciding every lock grant of the instrumented filesystem, fault-injected Keep writes; linearizability checking (porcupine) of recorded histories + snapshot-window oracle",
		DesignRef:    "5.13"})
}
