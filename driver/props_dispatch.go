package main

func init() {
	harnesses = append(harnesses, &Harness{Name: "dispatch", Pkg: "lib/dispatchcloud",
		Inject: map[string]string{"inspect_worker.go": "lib/dispatchcloud/worker"},
		Instr: []InstrSpec{
			{Pkg: "lib/dispatchcloud/scheduler", Files: []string{"*"}, Rules: "R1,R2,R3,R4,R5,R6"},
			{Pkg: "lib/dispatchcloud/worker", Files: []string{"*"}, Rules: "R1,R2,R3,R4,R5,R6"},
			{Pkg: "lib/dispatchcloud/container", Files: []string{"*"}, Rules: "R1,R2,R3,R4,R5,R6"},
			// ChooseInstanceType ranges over the InstanceTypes map; with tied candidates the winner would
			// follow Go's random map order and a replay could put a container on another type.
			{Pkg: "lib/dispatchcloud", Files: []string{"node_size.go"}, Rules: "R4"},
		}})
	real := []string{
		"lib/dispatchcloud/scheduler (Scheduler: runQueue, sync, fixStaleLocks, lock/cancel/kill/requeue goroutines), instrumented",
		"lib/dispatchcloud/worker (Pool, worker, remoteRunner, throttle, TagVerifier), instrumented: every lock acquisition, goroutine spawn, select and map range is a scheduler decision",
		"lib/dispatchcloud/container (Queue incl. poll paging, dontupdate logic, unsatisfiable-container cancellation), instrumented",
		"lib/dispatchcloud.ChooseInstanceType / EstimateScratchSpace (node_size.go)",
		"wired together as dispatcher.go does (scheduler.New + worker.NewPool + container.NewQueue, sched.Start, pool sync/probe tickers)",
	}
	stub := []string{
		"cloud model (cloud.InstanceSet/Instance): create latency, quota, rate limit, create/destroy/list failures and lost answers, termination lag, stale tags; listings are true snapshots",
		"VM model (worker.Executor): boot delay, never boots, broken-after, reports broken, crunch-run missing, unresponsive windows; per-VM process table with lib/crunchrun/background.go --detach/--list/--kill semantics (lock file per uuid, stale lock held by arv-mount, unkillable processes)",
		"simulated crunch-run processes (tasks): Locked->Running->Complete/Cancelled on the API model, crash early / while Running, SIGTERM handling",
		"Arvados API model (container.APIClient): containers table, list with filters/order/limit/offset and short pages, lock/unlock/update with the Rails state machine, MaxDispatchAttempts, failures before acting and answers lost after acting",
		"environment events: user priority 0/back, user cancel, admin hold/drain/run, VM faults, instance vanishing, dispatcher process death + new dispatcher",
		"logrus (io.Discard) and prometheus (fresh registry) are linked but uninstrumented",
	}
	props = append(props, &Prop{ID: "C14", Harness: "dispatch", Level: "exploration",
		QuickRuns: 2000, QuickChunk: 20, QuickWallS: 110, ThoroughRuns: 60000, ThoroughChunk: 20, ThoroughWallS: 600, MaxSteps: 1500000, RunWallS: 900,
		Rule:         "C14: per run the config knobs (probe/sync/poll intervals, boot/idle/probe/shutdown/TERM/signal/stale-lock timeouts, probe rate, create concurrency), 1-3 instance types, quota 1-8, API page size, 1-40 containers (120 thorough) of mixed priority/size arriving over time, a subset of 20 fault kinds at a drawn rate and a subset of 13 environment event kinds are drawn; the real dispatcher runs until everything settled or 10 simulated minutes (2 h thorough).",
		Real:         real,
		Stub:         stub,
		ExpectProbes: []string{"crunch-run-started", "start-on-worker-checked", "start-decided", "vm-sigterm-delivered", "lingering-process-owed-a-kill", "api-acted-response-lost", "vm-second-detach-refused-by-lockfile", "fixStaleLocks-unlocks-container-with-live-process", "lock-answer-delivered-after-newer-news"},
		LevelText:    "seeded exploration of lock-level interleavings x external-call delivery orders x fault sequences x environment events; oracles: global process table (never two live crunch-run processes for one container), start only on a worker the pool had as idle/run immediately before the decision, start only while the dispatcher has been told (versioned knowledge at the simulated API boundary) that it holds the lock with priority>0, lingering processes of containers delivered as cancelled/complete/requeued/held receive a kill within a generous simulated-time grace",
		LevelNote:    "trusted: kernel, rewriter, the three models, the knowledge tracker (good news counts from wire delivery, bad news from the return of the queue method that received it; a start is accepted if the knowledge was good at any instant since the pass read the queue). VerifyHostKey/SSH key handling and the management HTTP API are not exercised",
		Technique:    "deterministic simulation with fault injection: instrumented real scheduler+pool+queue under a seeded lock-level scheduler and simulated clock, against cloud/VM/API models; invariants over ground-truth process tables and the delivered-message history",
		DesignRef:    "5.14"})
	props = append(props, &Prop{ID: "C15", Harness: "dispatch", Level: "exploration",
		QuickRuns: 1500, QuickChunk: 20, QuickWallS: 90, ThoroughRuns: 50000, ThoroughChunk: 20, ThoroughWallS: 600, MaxSteps: 6000000, RunWallS: 900,
		Rule:         "C15: C14's system and draws with 1-20 containers (60 thorough) and process times capped at 30 s + 40 s when more than 6 containers are drawn; a fault phase of 15-600 simulated seconds (faults, events, and in half of the runs a dispatcher death and a new dispatcher after 0.1-200 s), then a quiet phase in which nothing is injected, new VMs are healthy and the operator releases held instances; the run ends when everything settled or B simulated time after the quiet phase began (B = 10 x the worst-case fault-free need of the drawn workload - ceil(n/quota) waves of boot + longest observed process time + probe + poll interval - which is about 100 x the typical need; at least 2 h, at most 6 h of simulated time).",
		Real:         real,
		Stub:         stub,
		ExpectProbes: []string{"run-settled", "crunch-run-started", "api-cancelled-max-dispatch-attempts", "arv-mount-deadlock", "vm-sigterm-ignored"},
		LevelText:    "seeded exploration as C14, judged as bounded liveness after the last fault: every container with priority>0 and a satisfiable type is Complete or Cancelled; none is Running/Locked without a live process; every instance ever created is gone; no container is handed to an instance after the pool received its broken report",
		LevelNote:    "trusted: as C14; B is generous and knob-derived, not measured by a second fault-free execution of the same workload; a run that exhausts the step budget before B is counted as truncated, not judged",
		Technique:    "deterministic simulation with fault injection, fault phase then quiet phase; bounded-liveness oracle over the ground-truth API/cloud/VM models",
		DesignRef:    "5.15"})
	props = append(props, &Prop{ID: "C16", Harness: "dispatch", Level: "exploration", Also: []string{"C16P"},
		QuickRuns: 1200, QuickChunk: 20, QuickWallS: 60, ThoroughRuns: 60000, ThoroughChunk: 20, ThoroughWallS: 600, MaxSteps: 1500000, RunWallS: 900,
		Rule:          "C16: per run an instance-type table (1-12 types, tied prices, RAM/VCPU/scratch boundary values, odd byte counts, preemptible flags) and ReserveExtraRAM are drawn; 150 constraint vectors around type boundaries (exact fit, -1/+1/+2 units, image sizes around the 122-byte and 42-byte-per-block boundaries, flipped preemptible flag) go through the real ChooseInstanceType directly, and 1-40 such containers go through the real queue, scheduler and pool under C14's faults and events; then faults stop until unsatisfiable containers are cancelled.",
		Real:          real,
		Stub:          append(append([]string{}, stub...), "sub-check C16P only: MODEL queue and MODEL pool (scheduler.ContainerQueue / scheduler.WorkerPool) behind the real scheduler, instead of the real container.Queue and worker.Pool"),
		ExpectProbes:  []string{"type-choice-checked", "type-choice-unsatisfiable", "type-choice-inside-rounding-interval", "runQueue-pass", "start-refused-no-idle-worker", "waiting-locked-container-unlocked-at-quota", "pool-at-quota-seen-by-scheduler", "unsatisfiable-container-in-queue", "episode-complete", "start-decided"},
		PureRideAlong: []string{"pure ride-along: the type-choice clause (ChooseInstanceType vs. brute-force minimum with interval-sound RAM arithmetic) is a pure function; it is evaluated inside every simulated run (each container entering the real queue, plus 150 direct samples per run) but no schedule/clock/fault dimension applies to it"},
		LevelText:     "type choice: brute-force reference written from the statement (chosen type adequate with the RAM bound rounded down, no strictly cheaper type adequate with it rounded up, unsatisfiable => error listing all configured types, and in the simulation such a container ends Cancelled with the error text and is never started); ordering: trace invariants over recording proxies around the real queue and pool handed to the scheduler, per runQueue pass relative to the Entries() snapshot of that pass",
		LevelNote:     "trusted: the reference arithmetic incl. the documented arv-keepdocker image-size heuristic; the pass detector (Unallocated() opens a pass over the latest Entries() of the scheduler goroutine, the next Entries()/CountWorkers() closes it). The tie-break among equally priced types is not part of the statement and not judged",
		Technique:     "deterministic simulation: real scheduler/pool/queue with randomised type tables; brute-force oracle for the (pure) choice, recorded-trace invariants for the ordering clauses; plus sub-check C16P: the real scheduler against a model queue and a model pool that changes between any two calls (the statement's own quantifier over snapshots and pool states)",
		DesignRef:     "5.16"})
	props = append(props, &Prop{ID: "C16P", Harness: "dispatch", Level: "exploration", Sub: true,
		QuickRuns: 20000, QuickChunk: 500, QuickWallS: 20, ThoroughRuns: 3000000, ThoroughChunk: 5000, ThoroughWallS: 200, MaxSteps: 100000,
		Rule: "C16P (ordering clauses of C16 over the statement's own quantifier): the real scheduler (Start: fixStaleLocks, runQueue, sync, lock/cancel/kill/requeue goroutines) runs 2-6 passes against a MODEL queue and a MODEL pool: 1-3 instance types, 2-8 containers (Queued, Locked, Locked or Running with a process, lingering old processes; tied, distinct and zero priorities), 0-3 idle and 0-3 booting workers per type, the at-quota flag; every call of the scheduler is one simulator decision and between two calls of one pass a booting worker may turn idle, an idle worker may go away, the quota flag may flip, Create and the API calls may be refused; between passes priorities change, containers arrive, workers boot, processes end."})
}
