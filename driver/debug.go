package main

import (
	"fmt"
	"os"
	"strconv"
	"time"
)

// vcheck debug <prop> <run> [n]: run one run index n times in fresh processes with the
// event log kept; print the first divergence, or the violation and the tail of the log.
func debugCmd(args []string) {
	p := propByID(args[0])
	run, _ := strconv.Atoi(args[1])
	n := 2
	if len(args) > 2 {
		n, _ = strconv.Atoi(args[2])
	}
	bi := buildHarness(harnessByName(p.Harness))
	var ref *RunResult
	for i := 0; i < n; i++ {
		spec := Spec{Prop: p.ID, Tier: envOr("VERIF_TIER", "quick"), Seed: seedEnv(), First: run, Runs: 1, KeepLog: true, Samples: 1, MaxSteps: p.MaxSteps, RunWallS: p.RunWallS, Params: p.Params}
		br, err := runBatch(bi, p, spec, 5*time.Minute+time.Duration(p.RunWallS)*time.Second)
		if err != nil && br == nil {
			infra("%v", err)
		}
		var rr *RunResult
		if br.Violation != nil {
			rr = br.Violation
		} else if len(br.Samples) > 0 {
			rr = br.Samples[0]
		}
		if rr == nil {
			infra("no result")
		}
		if ref == nil {
			ref = rr
			continue
		}
		for j := range ref.Log {
			if j >= len(rr.Log) || ref.Log[j] != rr.Log[j] {
				lo := j - 8
				if lo < 0 {
					lo = 0
				}
				for k := lo; k < j; k++ {
					fmt.Println("   ", ref.Log[k])
				}
				fmt.Println("A:", ref.Log[j])
				if j < len(rr.Log) {
					fmt.Println("B:", rr.Log[j])
				}
				fmt.Printf("DIVERGED at line %d (process %d)\n", j, i)
				return
			}
		}
	}
	fmt.Printf("deterministic over %d processes; steps=%d fingerprint=%s\n", n, ref.Steps, ref.Fingerprint)
	if os.Getenv("VERIF_FULL_LOG") != "" {
		for _, l := range ref.Log {
			fmt.Println(l)
		}
	} else if ref.Violation != nil {
		lo := len(ref.Log) - 40
		if lo < 0 {
			lo = 0
		}
		for _, l := range ref.Log[lo:] {
			fmt.Println(l)
		}
		fmt.Printf("violation: %s %v\n", ref.Violation.Clause, ref.Violation.Detail)
	}
	if ref.Infra != "" {
		fmt.Println("infra:", ref.Infra)
	}
}
