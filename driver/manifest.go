package main

import (
	"encoding/json"
	"os"
	"path/filepath"
	"sort"
)

var notApplicable = map[string]string{
	"C10": "pure string-to-structure functions (Go manifest package, Go loader, Python range mapper, PortableDataHash): no schedule, clock, I/O, fault or second party for a simulator to control; dressing a grammar-directed generator in simulator vocabulary would be property-based testing under another name (DESIGN.md 5.10)",
}

// notYet lists properties whose harness is not finished; they are not claimed.
// wip lists harnesses that are still being built: their checks can be run by hand but are
// not registered in MANIFEST.json yet.
var wip = map[string]bool{}

var notYet = map[string]string{}

func writeManifest() {
	type lvl struct {
		Category  string `json:"category"`
		Text      string `json:"text"`
		DesignRef string `json:"design_ref,omitempty"`
	}
	type chk struct {
		PropertyID string `json:"property_id"`
		Quick      string `json:"quick_cmd"`
		Thorough   string `json:"thorough_cmd"`
		Evidence   string `json:"evidence_file"`
		Replay     string `json:"replay_cmd_template"`
		Engine     string `json:"engine"`
		Level      lvl    `json:"level_claimed"`
		Note       string `json:"level_note"`
		Technique  string `json:"technique"`
	}
	type na struct {
		PropertyID string `json:"property_id"`
		Reason     string `json:"reason"`
	}
	var checks []chk
	claimed := map[string]bool{}
	serves := map[string][]string{}
	sort.Slice(props, func(i, j int) bool { return props[i].ID < props[j].ID })
	for _, p := range props {
		if p.Sub {
			// a sub-check serves its parent property from another harness
			for _, q := range props {
				for _, a := range q.Also {
					if a == p.ID {
						serves[p.Harness] = append(serves[p.Harness], q.ID+" (clause decided by sub-check "+p.ID+")")
					}
				}
			}
			continue
		}
		if wip[p.Harness] {
			continue
		}
		claimed[p.ID] = true
		serves[p.Harness] = append(serves[p.Harness], p.ID)
		checks = append(checks, chk{PropertyID: p.ID, Quick: "./vcheck " + p.ID + " quick", Thorough: "./vcheck " + p.ID + " thorough",
			Evidence: "/verif/evidence/" + p.ID + ".json", Replay: "./vcheck " + p.ID + " --replay {path}", Engine: "vsim/" + p.Harness,
			Level: lvl{Category: p.Level, Text: p.LevelText, DesignRef: p.DesignRef},
			Note:  p.LevelNote, Technique: p.Technique})
	}
	var nas []na
	for id, r := range notApplicable {
		if !claimed[id] {
			nas = append(nas, na{id, r})
		}
	}
	for id, r := range notYet {
		if !claimed[id] {
			nas = append(nas, na{id, "not claimed (no verdict offered): " + r})
		}
	}
	sort.Slice(nas, func(i, j int) bool { return nas[i].PropertyID < nas[j].PropertyID })
	var engines []map[string]any
	for _, h := range harnesses {
		if wip[h.Name] {
			continue
		}
		engines = append(engines, map[string]any{"name": "vsim/" + h.Name, "path": "/verif/harness/" + h.Name + " (+ /verif/sim kernel, /verif/instr rewriter, /verif/driver)",
			"serves_properties": serves[h.Name], "kind_free_text": "deterministic simulation with fault injection: real code of " + h.Pkg + " inside a testing/synctest bubble under a seeded scheduler, simulated clock/transport/disk, recorded choice vector, minimised replay"})
	}
	m := map[string]any{
		"version":   1,
		"setup_cmd": "./setup.sh",
		"hooks": map[string]any{
			"guard":            "verif",
			"enable":           "no source commits in /repo: each check rebuilds with go1.26.8 `go test -c -tags verif -modfile=/verif/.build/go.mod -overlay=/verif/.build/<harness>/overlay.json`; the overlay injects /verif/harness/<h>/*.go into the repository package and replaces selected files by instrumented copies that /verif/instr regenerates from the current working tree",
			"baseline_off_cmd": "for m in $(cat /w/out/gomods.txt); do MF=$(cd /repo/$m && . /w/out/goenv.sh && gomodflag); (cd /repo/$m && go test $MF -json -vet=off -count=1 -timeout 25m ./...); done",
			"source_commits":   []string{},
			"add_only":         true,
		},
		"engines":        engines,
		"checks":         checks,
		"not_applicable": nas,
		"notes":          "All checks are one technique: seeded deterministic simulation with fault injection (DESIGN.md). Exit 0 held / 1 VIOLATION / 2 infrastructure. VERIF_SEED selects the seed; VERIF_JOBS the process fan-out (default 16). known findings: /verif/known_findings.json.",
	}
	b, _ := json.MarshalIndent(m, "", " ")
	if err := os.WriteFile(filepath.Join(home, "MANIFEST.json"), append(b, '\n'), 0644); err != nil {
		infra("%v", err)
	}
}
