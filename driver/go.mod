module verif.local/driver

go 1.26
