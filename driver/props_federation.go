package main

func init() {
	harnesses = append(harnesses, &Harness{Name: "federation", Pkg: "lib/controller"})
	props = append(props, &Prop{ID: "C18", Harness: "federation", Level: "exploration",
		QuickRuns: 20000, QuickChunk: 500, QuickWallS: 60, ThoroughRuns: 3000000, ThoroughChunk: 5000, ThoroughWallS: 600, MaxSteps: 20000,
		DesignRef: "5.18"})
	props = append(props, &Prop{ID: "C19", Harness: "federation", Level: "exploration",
		QuickRuns: 20000, QuickChunk: 500, QuickWallS: 60, ThoroughRuns: 3000000, ThoroughChunk: 5000, ThoroughWallS: 600, MaxSteps: 20000,
		DesignRef: "5.19"})
	props = append(props, &Prop{ID: "C20", Harness: "federation", Level: "exploration",
		QuickRuns: 20000, QuickChunk: 500, QuickWallS: 60, ThoroughRuns: 3000000, ThoroughChunk: 5000, ThoroughWallS: 600, MaxSteps: 50000,
		DesignRef: "5.20"})
}
