package main

func init() {
	harnesses = append(harnesses, &Harness{Name: "federation", Pkg: "lib/controller",
		Instr: []InstrSpec{
			{Pkg: "lib/controller/federation", Files: []string{"conn.go", "list.go"}, Rules: "R1,R2,R4,R9:splitListRequest|tryLocalThenRemotes"},
			// the legacy (ForceLegacyAPI14) fan-outs
			{Pkg: "lib/controller", Files: []string{"fed_collections.go", "fed_generic.go"}, Rules: "R1,R2,R4"}}})
	real := []string{
		"lib/controller: Handler.ServeHTTP, router, federation.Conn (CollectionGet, tryLocalThenRemotes, rewriteManifest, saltedTokenProvider, splitListRequest, generated_*List), rpc.Conn, railsproxy/localdb wiring",
		"lib/controller legacy path: setupProxyRemoteCluster, genericFederatedRequestHandler, fetchRemoteCollectionByUUID/ByPDH, rewriteSignatures, saltAuthToken, validateAPItoken, proxy.Do",
		"sdk/go/auth (SaltToken, credential loading), sdk/go/arvados client, net/http client on top of the simulated round-tripper",
	}
	props = append(props, &Prop{ID: "C18", Harness: "federation", Level: "exploration",
		QuickRuns: 20000, QuickChunk: 500, QuickWallS: 60, ThoroughRuns: 3000000, ThoroughChunk: 5000, ThoroughWallS: 600, MaxSteps: 20000,
		Rule:         "C18: per run a manifest (1-3 streams; signed, unsigned, hinted-before/after and unsigned-but-hinted locators; names that look like hints), 1-4 remotes, the new router path or ForceLegacyAPI14, a request (exact PDH / one hex digit off / wrong length / trailing hints / remote UUID), which remotes hold the collection, one behaviour per remote from {honest, different manifest, single-token tampering (8 kinds), 404, 5xx, hang until cancelled, connection error}, local Rails 404/holds/5xx, per-answer latency (us..30 s) and a request deadline (60-600 s) are drawn; the scheduler orders sends and deliveries.",
		Real:         real,
		Stub:         []string{"local Rails API and 1-4 remote clusters: node models on the simulated transport (http.DefaultTransport, arvados.DefaultSecureClient, arvados.InsecureHTTPClient)", "PostgreSQL: not used on these paths"},
		ExpectProbes: []string{"ok-pdh", "ok-pdh-hints", "ok-uuid", "signatures-rewritten", "error-pdh-digit-off", "error-pdh-wrong-length", "local-holds"},
		LevelText:    "seeded exploration of manifests x requested ids x per-remote byzantine behaviours x answer orders/timings against the real controller Handler; oracles: a 200 carries a manifest whose portable data hash, recomputed by a reference written from the definition, is the requested hash+size; the relayed text equals a delivered answer with only +A<sig>@<exp> -> +R<cluster>-<sig>@<exp> (token-level reference rewrite); a request fails only if no honest holder that was asked answers before the deadline",
		LevelNote:    "trusted: the harness transport (pending requests identified by method+host+path because the controller's query strings are built from map iteration), the reference PDH/rewrite functions, go1.26.8 synctest. API.MaxRequestAmplification is drawn only from values that do not contend (0 or >= number of remotes): the legacy fan-out lets goroutines race for a channel semaphore (they are simulator tasks now, rules R1/R2/R4 on fed_collections.go and fed_generic.go, but the restriction is kept).",
		Technique:    "deterministic simulation: real controller Handler over a simulated transport with byzantine remote-cluster models, seeded response ordering and delays; reference-implementation oracles",
		DesignRef:    "5.18"})
	props = append(props, &Prop{ID: "C19", Harness: "federation", Level: "exploration", Also: []string{"C19K"},
		QuickRuns: 16000, QuickChunk: 400, QuickWallS: 60, ThoroughRuns: 3000000, ThoroughChunk: 5000, ThoroughWallS: 600, MaxSteps: 20000,
		Rule:         "C19: per run 1-4 remotes, default or ForceLegacyAPI14 configuration and 1-3 client requests are drawn; each request has a shape (collection by PDH/UUID, container request, group, workflow, container, link by remote UUID; collection/container-request/container/workflow lists naming every cluster; workflow create-at-remote/update, link delete, collection update), parameters in the query string or a form body, and 1-3 tokens placed in Authorization Bearer/OAuth2/Basic, api_token query parameter, form body or cookie; token kinds: v2 with 39/40/41/50-character secrets, v2 with an extra path segment, already salted v2, legacy tokens known/unknown to the local cluster, opaque strings; owners: home, each remote, an unconfigured cluster.",
		Real:         real,
		Stub:         []string{"local Rails API (api_client_authorizations/current, 404s, empty lists) and remote clusters as node models; every request delivered to a remote passes the wire monitor", "PostgreSQL: a database/sql driver answering validateAPItoken's one SELECT from the same token table as the Rails model"},
		ExpectProbes: []string{"forwarded-credential-checked", "legacy-token-resolved-by-rails", "token-resolved-by-database", "placement-cookie", "placement-form", "placement-basic", "token-v2-extra", "token-opaque"},
		LevelText:    "seeded exploration of token shapes x placements x request shapes x configurations; wire monitor: no header value (also Base64-decoded), query string or body of any request delivered outside the home cluster contains an unsalted secret the workload created; every forwarded credential (Authorization, reader_tokens) equals an independent reference: v2/<uuid>/hex(HMAC-SHA1(key=secret,msg=remote)), unchanged for 40-hex-salted and non-Arvados tokens, legacy tokens salted from their locally resolved v2 form unless they belong to the remote",
		LevelNote:    "trusted: the wire monitor's decodings, the reference salting, the token table shared by the Rails model and the database driver. Not covered: keepstore's +R proxy (other package), container-request creation at a remote (sends a runtime token by design). Legacy-format tokens ride on router fan-out requests only when one remote is configured (identical concurrent lookups at the local Rails API cannot be ordered by the simulated world).",
		Technique:    "deterministic simulation with a non-disclosure monitor on the simulated wire; independent salting reference",
		DesignRef:    "5.19"})
	props = append(props, &Prop{ID: "C20", Harness: "federation", Level: "exploration",
		QuickRuns: 20000, QuickChunk: 500, QuickWallS: 60, ThoroughRuns: 3000000, ThoroughChunk: 5000, ThoroughWallS: 600, MaxSteps: 50000,
		Rule:         "C20: per run 1-3 remotes plus home with 0-7 objects each (collections, container requests or groups), a page limit (3..1000), 1-3 uuid filters (in / =, later filters overlapping the first) over existing, missing, unknown-prefix, malformed and duplicate UUIDs, optional select, GET or POST-as-GET, an unsplittable variant (other filter, other operator, count=exact/unspecified, limit, offset, order, more UUIDs than the page limit), per-backend paging (page size 1..n, modified_at/uuid/shuffled order, short pages) and one fault (5xx, 4xx, connection error, no-progress once, no-progress forever) at the k-th backend call are drawn.",
		Real:         real,
		Stub:         []string{"local Rails API and remote clusters: list endpoints honouring uuid in/= filters, select, limit, with the drawn paging behaviour"},
		ExpectProbes: []string{"list-ok", "list-ok-3plus-clusters", "backend-paged", "short-page", "fault-hit-request", "unknown-cluster-involved", "unsplittable-order", "unsplittable-other-filter", "unsplittable-more-uuids-than-page-limit"},
		LevelText:    "seeded exploration of UUID sets x filters x paging behaviours x fault position against the real router/federation list path; oracles: success => exactly the existing objects of the filters' intersection, each once, each contained in a delivered answer of the cluster its prefix names; an involved cluster that errs, is unknown or answers without progress => error; unsplittable multi-cluster query => error with no backend request on the wire; at most 2*(|UUIDs|+clusters)+2 backend calls per request and return within the step budget",
		LevelNote:    "trusted: the backend list model, the transport log. Queries that name objects of the home cluster only are not judged (plain local list call). Boundary cases the statement leaves open (count unspecified; page limit exceeded only when duplicates/non-intersecting UUIDs are counted) may be rejected or answered. The legacy multi-cluster path for containers/workflows/links (fed_generic.go) is not exercised by C20.",
		Technique:    "deterministic simulation: paging/faulty backend models behind the simulated transport, fault injected at each backend call in turn, history oracle over the transport log",
		DesignRef:    "5.20"})
}
