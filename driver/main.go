// vdriver: builds a harness against the current working tree of the repository, fans
// simulated runs out over the cores, minimises and replays violations, matches known
// findings and writes the evidence file.
package main

import (
	"crypto/sha256"
	"encoding/json"
	"fmt"
	"io"
	"os"
	"os/exec"
	"path/filepath"
	"sort"
	"strconv"
	"strings"
	"sync"
	"syscall"
	"time"
)

var (
	home  = envOr("VERIF_HOME", "/verif")
	repo  = envOr("VERIF_REPO", "/repo")
	goBin = envOr("VERIF_GO", "go1.26.8")
	build = filepath.Join(home, ".build")
)

func envOr(k, d string) string {
	if v := os.Getenv(k); v != "" {
		return v
	}
	return d
}

func infra(format string, a ...any) {
	fmt.Fprintf(os.Stderr, "vcheck: infrastructure problem: "+format+"\n", a...)
	exit(2)
}

// privateBins: this process's own copies of harness binaries (see buildHarness); removed on exit.
var privateBins []string
var privateMu sync.Mutex

func exit(code int) {
	privateMu.Lock()
	for _, f := range privateBins {
		os.Remove(f)
	}
	privateMu.Unlock()
	os.Exit(code)
}

func main() {
	realMain()
	exit(0)
}

func realMain() {
	if len(os.Args) < 2 {
		fmt.Fprintln(os.Stderr, "usage: vcheck <Cxx> quick|thorough | vcheck <Cxx> --replay <file> | vcheck setup | vcheck selftest-determinism [harness]")
		os.Exit(2)
	}
	os.MkdirAll(build, 0755)
	switch os.Args[1] {
	case "setup":
		setup()
		return
	case "selftest-determinism":
		selftestDeterminism(os.Args[2:])
		return
	case "all":
		// run every registered (claimed) check in turn; exit 1 if any reports a violation
		tier := "quick"
		if len(os.Args) > 2 {
			tier = os.Args[2]
		}
		worst := 0
		sort.Slice(props, func(i, j int) bool { return props[i].ID < props[j].ID })
		for _, p := range props {
			if wip[p.Harness] || p.Sub {
				continue
			}
			if rc := check(p, tier); rc > worst {
				worst = rc
			}
		}
		exit(worst)
	case "debug":
		debugCmd(os.Args[2:])
		return
	case "manifest":
		writeManifest()
		return
	case "build":
		for _, h := range os.Args[2:] {
			buildHarness(harnessByName(h))
		}
		return
	}
	id := os.Args[1]
	p := propByID(id)
	if p == nil {
		infra("unknown property %s", id)
	}
	if len(os.Args) >= 4 && os.Args[2] == "--replay" {
		exit(replayCmd(p, os.Args[3]))
	}
	tier := "quick"
	if len(os.Args) >= 3 {
		tier = os.Args[2]
	}
	if t := os.Getenv("VERIF_TIER"); t != "" && len(os.Args) < 3 {
		tier = t
	}
	if tier != "quick" && tier != "thorough" {
		infra("unknown tier %s", tier)
	}
	exit(check(p, tier))
}

func setup() {
	// build the rewriter and every harness once so that later checks hit a warm cache
	buildVinstr()
	seen := map[string]bool{}
	for _, p := range props {
		if seen[p.Harness] {
			continue
		}
		seen[p.Harness] = true
		buildHarness(harnessByName(p.Harness))
	}
	fmt.Println("setup ok")
}

// ---- build ---------------------------------------------------------------------------

func run(dir string, env []string, name string, args ...string) (string, error) {
	cmd := exec.Command(name, args...)
	cmd.Dir = dir
	cmd.Env = append(os.Environ(), env...)
	out, err := cmd.CombinedOutput()
	return string(out), err
}

func buildVinstr() string {
	bin := filepath.Join(build, "bin", "vinstr")
	if bi, err := os.Stat(bin); err == nil {
		fresh := true
		for _, f := range []string{"main.go", "go.mod", "go.sum"} {
			if si, err := os.Stat(filepath.Join(home, "instr", f)); err != nil || si.ModTime().After(bi.ModTime()) {
				fresh = false
			}
		}
		if fresh {
			return bin
		}
	}
	tmp := fmt.Sprintf("%s.%d", bin, os.Getpid())
	out, err := run(filepath.Join(home, "instr"), nil, goBin, "build", "-o", tmp, ".")
	if err != nil {
		infra("building vinstr: %v\n%s", err, out)
	}
	os.Rename(tmp, bin)
	return bin
}

// modfile writes .build/go.mod (+go.sum): the repository's go.mod plus the simulation
// kernel, porcupine and the pam stub. /repo/go.mod itself is never touched.
func modfile(build string) string {
	src, err := os.ReadFile(filepath.Join(repo, "go.mod"))
	if err != nil {
		infra("%v", err)
	}
	extra := fmt.Sprintf(`
require verif.local/vsim v0.0.0
require github.com/anishathalye/porcupine v1.3.0
replace verif.local/vsim => %s/sim
replace github.com/msteinert/pam => %s/stubs/pam
`, home, home)
	// The kernel module needs go >= 1.26, and a main module must declare at least the go
	// version of its dependencies: the go command would rewrite the line anyway (on every
	// build, which also defeated the build cache). NOTE: the repository's packages are
	// therefore compiled with go1.26 language semantics (per-iteration loop variables) and
	// current GODEBUG defaults; see DESIGN.md section 7.
	content := strings.Replace(string(src), "\ngo 1.13\n", "\ngo 1.26\n", 1) + extra
	dst := filepath.Join(build, "go.mod")
	// go tidies the file after the first build (moves require lines); rewrite it only when
	// its inputs change, so that an unchanged tree always builds from the same bytes.
	stamp := filepath.Join(build, "go.mod.inputs")
	if old, err := os.ReadFile(stamp); err != nil || string(old) != content {
		writeIfChanged(dst, []byte(content))
		os.WriteFile(stamp, []byte(content), 0644)
	} else if _, err := os.Stat(dst); err != nil {
		writeIfChanged(dst, []byte(content))
	}
	sumStamp := filepath.Join(build, "go.sum.inputs")
	sum, _ := os.ReadFile(filepath.Join(repo, "go.sum"))
	if old, err := os.ReadFile(sumStamp); err != nil || string(old) != string(sum) {
		writeIfChanged(filepath.Join(build, "go.sum"), sum)
		os.WriteFile(sumStamp, sum, 0644)
	}
	return dst
}

func writeIfChanged(path string, b []byte) {
	old, err := os.ReadFile(path)
	if err == nil && string(old) == string(b) {
		return
	}
	os.MkdirAll(filepath.Dir(path), 0755)
	if err := os.WriteFile(path, b, 0644); err != nil {
		infra("%v", err)
	}
}

type buildInfo struct {
	Bin      string
	Rewriter map[string]any
	BuildS   float64
}

var buildMu sync.Mutex
var built = map[string]*buildInfo{}

func buildHarness(h *Harness) *buildInfo {
	buildMu.Lock()
	defer buildMu.Unlock()
	if bi := built[h.Name]; bi != nil {
		return bi
	}
	t0 := time.Now()
	// Several vcheck processes may run at once (other properties of the same harness, another
	// VERIF_REPO): every (repository path, harness) pair has its own build directory, builds in
	// it are serialised by a file lock, and each process runs a private copy of the binary.
	hdir := filepath.Join(build, fmt.Sprintf("%s-%x", h.Name, sha256.Sum256([]byte(repo)))[:len(h.Name)+9])
	os.MkdirAll(hdir, 0755)
	lock, err := os.OpenFile(hdir+".lock", os.O_CREATE|os.O_RDWR, 0644)
	if err != nil {
		infra("%v", err)
	}
	if err := syscall.Flock(int(lock.Fd()), syscall.LOCK_EX); err != nil {
		infra("flock %s: %v", hdir, err)
	}
	defer lock.Close() // releases the lock
	gcPrivateBins(hdir)
	mf := modfile(hdir)
	overlay := map[string]string{}
	report := map[string]any{}
	// 1. instrumented copies of repository files, regenerated from the working tree
	if len(h.Instr) > 0 {
		vinstr := buildVinstr()
		for isi, is := range h.Instr {
			// (several specs may name the same package with different files and rules)
			outdir := filepath.Join(hdir, "instr", fmt.Sprintf("%d_%s", isi, strings.ReplaceAll(is.Pkg, "/", "_")))
			os.RemoveAll(outdir)
			os.MkdirAll(outdir, 0755)
			args := []string{"-repo", repo, "-pkg", "./" + is.Pkg, "-files", strings.Join(is.Files, ","), "-rules", is.Rules, "-out", outdir, "-modfile", mf}
			out, err := run(repo, nil, vinstr, args...)
			if err != nil {
				infra("vinstr %s: %v\n%s", is.Pkg, err, out)
			}
			var frag struct {
				Replace map[string]string
				Report  map[string]any
			}
			b, err := os.ReadFile(filepath.Join(outdir, "overlay.json"))
			if err != nil {
				infra("%v", err)
			}
			if err := json.Unmarshal(b, &frag); err != nil {
				infra("vinstr overlay: %v", err)
			}
			for k, v := range frag.Replace {
				overlay[k] = v
			}
			if _, dup := report[is.Pkg]; dup {
				report[fmt.Sprintf("%s (%s)", is.Pkg, strings.Join(is.Files, ","))] = frag.Report
			} else {
				report[is.Pkg] = frag.Report
			}
		}
	}
	// 2. harness files injected into the package directory; upstream tests overlaid away
	pkgdir := filepath.Join(repo, h.Pkg)
	ents, err := os.ReadDir(pkgdir)
	if err != nil {
		infra("%v", err)
	}
	for _, e := range ents {
		if strings.HasSuffix(e.Name(), "_test.go") {
			overlay[filepath.Join(pkgdir, e.Name())] = ""
		}
	}
	src := filepath.Join(home, "harness", h.Name)
	hents, err := os.ReadDir(src)
	if err != nil {
		infra("%v", err)
	}
	for _, e := range hents {
		if !strings.HasSuffix(e.Name(), ".go") {
			continue
		}
		dst := filepath.Join(pkgdir, "verif_"+e.Name())
		if sub, ok := h.Inject[e.Name()]; ok {
			dst = filepath.Join(repo, sub, "verif_"+e.Name())
		}
		overlay[dst] = filepath.Join(src, e.Name())
	}
	ob, _ := json.MarshalIndent(map[string]any{"Replace": overlay}, "", " ")
	ofile := filepath.Join(hdir, "overlay.json")
	writeIfChanged(ofile, ob)
	bin := filepath.Join(hdir, h.Name+".test")
	args := []string{"test", "-c", "-vet=off", "-tags", "verif", "-modfile=" + mf, "-overlay=" + ofile, "-o", bin}
	if os.Getenv("VERIF_RACE") == "1" {
		args = append(args, "-race")
	}
	args = append(args, "./"+h.Pkg)
	out, err := run(repo, nil, goBin, args...)
	if err != nil {
		infra("building harness %s: %v\n%s", h.Name, err, out)
	}
	priv := filepath.Join(hdir, fmt.Sprintf("run-%d-%s.test", os.Getpid(), h.Name))
	if err := copyFile(bin, priv); err != nil {
		infra("%v", err)
	}
	privateMu.Lock()
	privateBins = append(privateBins, priv)
	privateMu.Unlock()
	bi := &buildInfo{Bin: priv, Rewriter: report, BuildS: time.Since(t0).Seconds()}
	built[h.Name] = bi
	return bi
}

func copyFile(src, dst string) error {
	in, err := os.Open(src)
	if err != nil {
		return err
	}
	defer in.Close()
	out, err := os.OpenFile(dst, os.O_CREATE|os.O_WRONLY|os.O_TRUNC, 0755)
	if err != nil {
		return err
	}
	if _, err := io.Copy(out, in); err != nil {
		out.Close()
		return err
	}
	return out.Close()
}

// gcPrivateBins removes private binaries left behind by processes that no longer exist.
func gcPrivateBins(hdir string) {
	ents, _ := os.ReadDir(hdir)
	for _, e := range ents {
		var pid int
		if n, _ := fmt.Sscanf(e.Name(), "run-%d-", &pid); n == 1 {
			if _, err := os.Stat(fmt.Sprintf("/proc/%d", pid)); err != nil {
				os.Remove(filepath.Join(hdir, e.Name()))
			}
		}
	}
}

// ---- running -------------------------------------------------------------------------

type Spec struct {
	Prop     string            `json:"prop"`
	Tier     string            `json:"tier"`
	Seed     uint64            `json:"seed"`
	First    int               `json:"first"`
	Runs     int               `json:"runs"`
	Replay   []int             `json:"replay,omitempty"`
	KeepLog  bool              `json:"keep_log,omitempty"`
	Samples  int               `json:"samples,omitempty"`
	Out      string            `json:"out"`
	Params   map[string]string `json:"params,omitempty"`
	MaxSteps int               `json:"max_steps,omitempty"`
	WallS    int               `json:"wall_s,omitempty"`
	RunWallS int               `json:"run_wall_s,omitempty"`
	Known    []KnownSig        `json:"known,omitempty"`
}

type KnownSig struct {
	Clause string `json:"clause"`
	Sig    string `json:"sig"`
}

type Violation struct {
	Clause string `json:"clause"`
	Sig    string `json:"sig,omitempty"`
	Detail any    `json:"detail,omitempty"`
	Step   int    `json:"step"`
	SimAt  string `json:"simtime"`
}

type RunResult struct {
	Run         int               `json:"run"`
	Seed        uint64            `json:"seed"`
	Steps       int               `json:"steps"`
	Contended   int               `json:"contended_decisions"`
	SimSeconds  float64           `json:"sim_seconds"`
	Strategy    string            `json:"strategy"`
	Choices     []int             `json:"choices,omitempty"`
	Fingerprint string            `json:"fingerprint"`
	EndState    string            `json:"end_state,omitempty"`
	Probes      map[string]int    `json:"probes,omitempty"`
	Faults      map[string]int    `json:"faults,omitempty"`
	Notes       map[string]string `json:"notes,omitempty"`
	Violation   *Violation        `json:"violation,omitempty"`
	Infra       string            `json:"infra,omitempty"`
	Truncated   bool              `json:"truncated,omitempty"`
	Leaked      bool              `json:"leaked_goroutines,omitempty"`
	Log         []string          `json:"log,omitempty"`
}

type BatchResult struct {
	Prop        string         `json:"prop"`
	First       int            `json:"first"`
	Completed   int            `json:"completed"`
	NextRun     int            `json:"next_run"`
	StepsTotal  int64          `json:"steps_total"`
	Contended   int64          `json:"contended_total"`
	SimSeconds  float64        `json:"sim_seconds"`
	Truncated   int            `json:"truncated"`
	Leaked      int            `json:"leaked"`
	Probes      map[string]int `json:"probes"`
	Faults      map[string]int `json:"faults"`
	Strategies  map[string]int `json:"strategies"`
	KnownHits   map[string]int `json:"known_hits"`
	SchedHashes []uint64       `json:"sched_hashes"`
	Nontrivial  []uint64       `json:"nontrivial_hashes"`
	EndStates   []uint64       `json:"end_state_hashes"`
	Samples     []*RunResult   `json:"samples,omitempty"`
	Violation   *RunResult     `json:"violation,omitempty"`
	Infra       string         `json:"infra,omitempty"`
	WallS       float64        `json:"wall_s"`
}

var specSeq int
var specMu sync.Mutex

// runBatch runs one harness process. Infrastructure trouble is returned as err.
func runBatch(bi *buildInfo, p *Prop, spec Spec, timeout time.Duration) (*BatchResult, error) {
	specMu.Lock()
	specSeq++
	n := specSeq
	specMu.Unlock()
	dir := filepath.Join(build, "run", p.ID, strconv.Itoa(os.Getpid()))
	os.MkdirAll(dir, 0755)
	sf := filepath.Join(dir, fmt.Sprintf("spec%d.json", n))
	spec.Out = filepath.Join(dir, fmt.Sprintf("out%d.json", n))
	os.Remove(spec.Out)
	b, _ := json.Marshal(spec)
	os.WriteFile(sf, b, 0644)
	defer os.Remove(sf)
	defer os.Remove(spec.Out)
	cmd := exec.Command(bi.Bin, "-test.run", "^TestVerif$", "-test.timeout", "0", "-verif.spec", sf)
	cmd.Dir = dir
	cmd.Env = append(os.Environ(), "GOMAXPROCS="+envOr("VERIF_GOMAXPROCS", "2"), "TMPDIR="+dir)
	var outb strings.Builder
	cmd.Stdout, cmd.Stderr = &outb, &outb
	if err := cmd.Start(); err != nil {
		return nil, err
	}
	done := make(chan error, 1)
	go func() { done <- cmd.Wait() }()
	var werr error
	select {
	case werr = <-done:
	case <-time.After(timeout):
		cmd.Process.Kill()
		<-done
		return nil, fmt.Errorf("harness process exceeded %s (first=%d runs=%d)\n%s", timeout, spec.First, spec.Runs, tail(outb.String(), 4000))
	}
	rb, err := os.ReadFile(spec.Out)
	if err != nil {
		return nil, fmt.Errorf("harness process wrote no result (%v): %s", werr, tail(outb.String(), 6000))
	}
	var br BatchResult
	if err := json.Unmarshal(rb, &br); err != nil {
		return nil, fmt.Errorf("bad result file: %v", err)
	}
	if br.Infra != "" {
		return &br, fmt.Errorf("%s\n%s", br.Infra, tail(outb.String(), 3000))
	}
	return &br, nil
}

func firstLine(err error) string {
	s := err.Error()
	if i := strings.Index(s, "\n"); i > 0 {
		s = s[:i]
	}
	if len(s) > 300 {
		s = s[:300]
	}
	return s
}

func tail(s string, n int) string {
	if len(s) > n {
		return "..." + s[len(s)-n:]
	}
	return s
}

func seedEnv() uint64 {
	s := os.Getenv("VERIF_SEED")
	if s == "" {
		return 1
	}
	v, err := strconv.ParseUint(s, 10, 64)
	if err != nil {
		v2, err2 := strconv.ParseInt(s, 10, 64)
		if err2 != nil {
			return 1
		}
		return uint64(v2)
	}
	return v
}

func jobs() int {
	if v, err := strconv.Atoi(os.Getenv("VERIF_JOBS")); err == nil && v > 0 {
		return v
	}
	return 16
}

type agg struct {
	infraRetries            int
	runs, truncated, leaked int
	steps, contended        int64
	simSeconds              float64
	probes, faults, strat   map[string]int
	known                   map[string]int
	sched, nontriv, ends    map[uint64]bool
	samples                 []*RunResult
}

func newAgg() *agg {
	return &agg{probes: map[string]int{}, faults: map[string]int{}, strat: map[string]int{}, known: map[string]int{},
		sched: map[uint64]bool{}, nontriv: map[uint64]bool{}, ends: map[uint64]bool{}}
}

func (a *agg) add(br *BatchResult) {
	a.runs += br.Completed
	a.truncated += br.Truncated
	a.leaked += br.Leaked
	a.steps += br.StepsTotal
	a.contended += br.Contended
	a.simSeconds += br.SimSeconds
	for k, v := range br.Probes {
		a.probes[k] += v
	}
	for k, v := range br.Faults {
		a.faults[k] += v
	}
	for k, v := range br.Strategies {
		a.strat[k] += v
	}
	for k, v := range br.KnownHits {
		a.known[k] += v
	}
	for _, h := range br.SchedHashes {
		a.sched[h] = true
	}
	for _, h := range br.Nontrivial {
		a.nontriv[h] = true
	}
	for _, h := range br.EndStates {
		a.ends[h] = true
	}
	if len(a.samples) < 3 {
		a.samples = append(a.samples, br.Samples...)
	}
}

// explore runs the simulated runs of one property (or sub-check) and returns what was seen.
func explore(p *Prop, tier string, seed uint64) (*agg, *RunResult, *buildInfo) {
	h := harnessByName(p.Harness)
	bi := buildHarness(h)
	known := loadKnown(p.ID)
	total, chunk, wall := p.QuickRuns, p.QuickChunk, p.QuickWallS
	if tier == "thorough" {
		total, chunk, wall = p.ThoroughRuns, p.ThoroughChunk, p.ThoroughWallS
	}
	if v, err := strconv.Atoi(os.Getenv("VERIF_RUNS")); err == nil && v > 0 {
		total = v
	}
	if v, err := strconv.Atoi(os.Getenv("VERIF_WALL_S")); err == nil && v > 0 {
		wall = v
	}
	if chunk <= 0 {
		chunk = 100
	}
	deadline := time.Now().Add(time.Duration(wall) * time.Second) // the budget starts after the build
	a := newAgg()
	var mu sync.Mutex
	next := 0
	var viol *RunResult
	var infraErr error
	var wg sync.WaitGroup
	for j := 0; j < jobs(); j++ {
		wg.Add(1)
		go func(j int) {
			defer wg.Done()
			for {
				mu.Lock()
				if viol != nil || infraErr != nil || next >= total || time.Now().After(deadline) {
					mu.Unlock()
					return
				}
				first := next
				n := chunk
				if first+n > total {
					n = total - first
				}
				next += n
				mu.Unlock()
				for n > 0 {
					spec := Spec{Prop: p.ID, Tier: tier, Seed: seed, First: first, Runs: n, MaxSteps: p.MaxSteps, RunWallS: p.RunWallS, Params: p.Params,
						WallS: int(time.Until(deadline).Seconds()) + 1, Known: known.sigs()}
					if first == 0 {
						spec.Samples = 3
					}
					br, err := runBatch(bi, p, spec, time.Until(deadline)+time.Duration(120+p.RunWallS)*time.Second)
					if err != nil && (br == nil || br.Violation == nil || br.Violation.Violation == nil) {
						// Runs are pure functions of (seed, run index, code): an infrastructure problem
						// that does not recur when the same batch is run again in a fresh process is
						// flakiness of the machinery (a rare real-thread race), not a verdict. Retry once;
						// a problem that recurs is reported (exit 2).
						fmt.Fprintf(os.Stderr, "vcheck: batch first=%d runs=%d of %s hit an infrastructure problem, retrying once: %v\n", first, n, p.ID, firstLine(err))
						br, err = runBatch(bi, p, spec, time.Until(deadline)+time.Duration(240+p.RunWallS)*time.Second)
						mu.Lock()
						a.infraRetries++
						mu.Unlock()
					}
					mu.Lock()
					if err != nil {
						if infraErr == nil {
							infraErr = err
						}
						mu.Unlock()
						return
					}
					a.add(br)
					if br.Violation != nil && viol == nil {
						viol = br.Violation
					}
					stop := viol != nil
					mu.Unlock()
					if stop || br.Completed == 0 {
						return
					}
					done := br.NextRun - first
					first, n = br.NextRun, n-done
					if time.Now().After(deadline) {
						return
					}
				}
			}
		}(j)
	}
	wg.Wait()
	if infraErr != nil {
		infra("%v", infraErr)
	}
	if a.runs == 0 && viol == nil {
		infra("no run of %s completed within the budget (wall %ds)", p.ID, wall)
	}
	for _, k := range sortedKeys(a.known) {
		fmt.Printf("KNOWN-FINDING: property=%s %s (seen in %d runs)\n", p.Reported(), known.describe(k), a.known[k])
	}
	os.RemoveAll(filepath.Join(build, "run", p.ID, strconv.Itoa(os.Getpid())))
	// A known finding that suddenly occurs far more often than recorded is not the known
	// finding any more (a change made it easier to reach, or hides behind its signature):
	// explore again without treating it as known, so that it is reported with a replay.
	if viol == nil {
		for _, k := range sortedKeys(a.known) {
			if lim := known.limit(k); lim > 0 && a.known[k] >= 5 && a.known[k]*1000 > lim*a.runs && !suppressKnown[k] {
				fmt.Printf("known finding %s seen in %d of %d runs, above its recorded limit of %d per mille: exploring again without it\n", k, a.known[k], a.runs, lim)
				suppressKnown[k] = true
				a2, v2, _ := explore(p, tier, seed)
				a.merge(a2)
				if v2 != nil {
					viol = v2
				}
				break
			}
		}
	}
	return a, viol, bi
}

// check runs a property's exploration plus the sub-checks listed in Prop.Also (other
// harnesses deciding further clauses of the same property) and writes one evidence file.
func (a *agg) merge(b *agg) {
	a.infraRetries += b.infraRetries
	a.runs += b.runs
	a.truncated += b.truncated
	a.leaked += b.leaked
	a.steps += b.steps
	a.contended += b.contended
	a.simSeconds += b.simSeconds
	for _, m := range []struct{ dst, src map[string]int }{{a.probes, b.probes}, {a.faults, b.faults}, {a.strat, b.strat}, {a.known, b.known}} {
		for k, v := range m.src {
			m.dst[k] += v
		}
	}
	for _, m := range []struct{ dst, src map[uint64]bool }{{a.sched, b.sched}, {a.nontriv, b.nontriv}, {a.ends, b.ends}} {
		for k := range m.src {
			m.dst[k] = true
		}
	}
	a.samples = append(a.samples, b.samples...)
}

func check(p *Prop, tier string) int {
	t0 := time.Now()
	seed := seedEnv()
	a, viol, bi := explore(p, tier, seed)
	vp := p
	for _, id := range p.Also {
		if viol != nil {
			break
		}
		sub := propByID(id)
		if sub == nil {
			infra("unknown sub-check %s", id)
		}
		sub.parent = p
		a2, v2, bi2 := explore(sub, tier, seed)
		a.merge(a2)
		for k, v := range bi2.Rewriter {
			if bi.Rewriter == nil {
				bi.Rewriter = map[string]any{}
			}
			bi.Rewriter[k] = v
		}
		if v2 != nil {
			viol, vp = v2, sub
		}
	}
	exit := 0
	var replayPath string
	if viol != nil {
		replayPath = handleViolation(buildHarness(harnessByName(vp.Harness)), vp, tier, seed, viol)
		exit = 1
	}
	writeEvidence(p, harnessByName(p.Harness), bi, tier, seed, a, time.Since(t0).Seconds(), viol, replayPath)
	if exit == 1 {
		fmt.Printf("VIOLATION property=%s replay=%s\n", p.ID, replayPath)
	} else {
		fmt.Printf("OK property=%s tier=%s runs=%d distinct_schedules=%d steps=%d sim_seconds=%.0f wall=%.1fs\n", p.ID, tier, a.runs, len(a.sched), a.steps, a.simSeconds, time.Since(t0).Seconds())
	}
	return exit
}

func sortedKeys(m map[string]int) []string {
	r := make([]string, 0, len(m))
	for k := range m {
		r = append(r, k)
	}
	sort.Strings(r)
	return r
}

// ---- violation handling: minimise, verify replay, write replay file ------------------

type ReplayFile struct {
	Property      string            `json:"property"`
	Harness       string            `json:"harness"`
	Tier          string            `json:"tier"`
	Seed          uint64            `json:"seed"`
	Run           int               `json:"run"`
	Params        map[string]string `json:"params,omitempty"`
	MaxSteps      int               `json:"max_steps,omitempty"`
	Choices       []int             `json:"choices"`
	Violation     *Violation        `json:"violation"`
	Fingerprint   string            `json:"fingerprint"`
	MinimisedFrom int               `json:"minimised_from_choices"`
	Faults        map[string]int    `json:"faults_fired,omitempty"`
	Log           []string          `json:"log"`
	Note          string            `json:"note"`
}

func replayOnce(bi *buildInfo, p *Prop, tier string, seed uint64, run int, choices []int, keepLog bool) (*RunResult, error) {
	if choices == nil {
		choices = []int{}
	}
	spec := Spec{Prop: p.ID, Tier: tier, Seed: seed, First: run, Runs: 1, Replay: choices, KeepLog: keepLog, MaxSteps: p.MaxSteps, RunWallS: p.RunWallS, Params: p.Params}
	br, err := runBatch(bi, p, spec, 5*time.Minute+time.Duration(p.RunWallS)*time.Second)
	if err != nil && (br == nil || br.Violation == nil) {
		return nil, err
	}
	if br.Violation != nil {
		return br.Violation, nil
	}
	return &RunResult{}, nil
}

func sameClass(a, b *Violation) bool {
	return a != nil && b != nil && a.Clause == b.Clause && a.Sig == b.Sig
}

func handleViolation(bi *buildInfo, p *Prop, tier string, seed uint64, v *RunResult) string {
	orig := v.Choices
	best := append([]int(nil), orig...)
	bestRes := v
	budget := time.Now().Add(time.Duration(envInt("VERIF_MIN_S", 90)) * time.Second)
	try := func(cands [][]int) int { // index of the first candidate that reproduces, or -1
		res := make([]*RunResult, len(cands))
		var wg sync.WaitGroup
		sem := make(chan struct{}, jobs())
		for i := range cands {
			wg.Add(1)
			go func(i int) {
				defer wg.Done()
				sem <- struct{}{}
				defer func() { <-sem }()
				r, err := replayOnce(bi, p, tier, seed, v.Run, cands[i], false)
				if err == nil {
					res[i] = r
				}
			}(i)
		}
		wg.Wait()
		for i, r := range res {
			if r != nil && r.Infra == "" && sameClass(r.Violation, v.Violation) {
				bestRes = r
				return i
			}
		}
		return -1
	}
	// pass 0: does the recorded vector reproduce at all?
	if try([][]int{best}) < 0 {
		infra("violation %q of %s (seed %d run %d) did not reproduce on replay: nondeterminism in the harness", v.Violation.Clause, p.ID, seed, v.Run)
	}
	// the run may stop early: drop unused tail
	if len(bestRes.Choices) < len(best) {
		best = append([]int(nil), bestRes.Choices...)
	}
	improved := true
	for improved && time.Now().Before(budget) {
		improved = false
		// delete chunks
		for size := len(best) / 2; size >= 1 && time.Now().Before(budget); size /= 2 {
			for start := 0; start+size <= len(best) && time.Now().Before(budget); {
				var cands [][]int
				var starts []int
				for k := 0; k < jobs() && start+size <= len(best); k++ {
					c := append(append([]int(nil), best[:start]...), best[start+size:]...)
					cands = append(cands, c)
					starts = append(starts, start)
					start += size
				}
				if i := try(cands); i >= 0 {
					best = cands[i]
					if len(bestRes.Choices) < len(best) {
						best = append([]int(nil), bestRes.Choices...)
					}
					improved = true
					start = starts[i]
				}
			}
		}
		// zero entries, then halve them
		for pass := 0; pass < 2 && time.Now().Before(budget); pass++ {
			for start := 0; start < len(best) && time.Now().Before(budget); {
				var cands [][]int
				for k := 0; k < jobs() && start < len(best); start++ {
					if best[start] == 0 {
						continue
					}
					c := append([]int(nil), best...)
					if pass == 0 {
						c[start] = 0
					} else {
						c[start] = best[start] / 2
					}
					cands = append(cands, c)
					k++
				}
				if len(cands) == 0 {
					break
				}
				if i := try(cands); i >= 0 {
					best = cands[i]
					improved = true
				}
			}
		}
	}
	// strip trailing zeros (exhausted vector == zeros)
	for len(best) > 0 && best[len(best)-1] == 0 {
		best = best[:len(best)-1]
	}
	// final: replay twice in fresh processes with the log kept; must agree exactly
	r1, err1 := replayOnce(bi, p, tier, seed, v.Run, best, true)
	r2, err2 := replayOnce(bi, p, tier, seed, v.Run, best, true)
	if err1 != nil || err2 != nil || !sameClass(r1.Violation, v.Violation) || !sameClass(r2.Violation, v.Violation) || r1.Fingerprint != r2.Fingerprint {
		infra("minimised replay of %s (seed %d run %d, clause %s: %v) diverged between two fresh processes (%v %v)", p.ID, seed, v.Run, v.Violation.Clause, v.Violation.Detail, err1, err2)
	}
	rf := ReplayFile{Property: p.ID, Harness: p.Harness, Tier: tier, Seed: seed, Run: v.Run, Params: p.Params, MaxSteps: p.MaxSteps,
		Choices: best, Violation: r1.Violation, Fingerprint: r1.Fingerprint, MinimisedFrom: len(orig), Faults: r1.Faults, Log: r1.Log,
		Note: "replay: ./vcheck " + p.ID + " --replay <this file>; every decision of the run (workload, faults, schedule) is read from `choices` (value mod arity, exhausted = 0); `log` is the event log of the minimised run"}
	os.MkdirAll(filepath.Join(home, "replays"), 0755)
	path := filepath.Join(home, "replays", fmt.Sprintf("%s-seed%d-run%d.json", p.ID, seed, v.Run))
	b, _ := json.MarshalIndent(rf, "", " ")
	os.WriteFile(path, b, 0644)
	fmt.Printf("violation: property=%s clause=%s detail=%v\n  minimised %d -> %d choices; faults fired in minimised run: %v\n", p.ID, r1.Violation.Clause, r1.Violation.Detail, len(orig), len(best), r1.Faults)
	return path
}

func envInt(k string, d int) int {
	if v, err := strconv.Atoi(os.Getenv(k)); err == nil {
		return v
	}
	return d
}

func replayCmd(p *Prop, file string) int {
	b, err := os.ReadFile(file)
	if err != nil {
		infra("%v", err)
	}
	var rf ReplayFile
	if err := json.Unmarshal(b, &rf); err != nil {
		infra("replay file: %v", err)
	}
	report := p
	if rf.Property != p.ID {
		ok := false
		for _, id := range p.Also {
			if id == rf.Property {
				ok = true
				p = propByID(id)
				p.parent = report
			}
		}
		if !ok {
			infra("replay file is for %s", rf.Property)
		}
	}
	bi := buildHarness(harnessByName(p.Harness))
	if rf.Params != nil {
		p.Params = rf.Params
	}
	if rf.MaxSteps != 0 {
		p.MaxSteps = rf.MaxSteps
	}
	r, err := replayOnce(bi, p, rf.Tier, rf.Seed, rf.Run, rf.Choices, true)
	if err != nil {
		infra("replay: %v", err)
	}
	if r.Violation == nil {
		fmt.Printf("replay of %s: no violation on the current tree (recorded: %s)\n", file, rf.Violation.Clause)
		return 0
	}
	for _, l := range r.Log {
		fmt.Println(l)
	}
	same := "identical event-log fingerprint"
	if r.Fingerprint != rf.Fingerprint {
		same = "fingerprint differs from the recorded one (tree or harness changed since)"
	}
	fmt.Printf("replay: clause=%s detail=%v; %s\n", r.Violation.Clause, r.Violation.Detail, same)
	if k := loadKnown(p.ID); k.match(r.Violation) != "" {
		fmt.Printf("KNOWN-FINDING: property=%s %s\n", report.ID, k.describe(k.match(r.Violation)))
		return 0
	}
	fmt.Printf("VIOLATION property=%s replay=%s\n", report.ID, file)
	return 1
}

// ---- known findings ------------------------------------------------------------------

// suppressKnown lists known-finding keys (clause|sig) that are NOT to be treated as known
// in this process: used when a known finding suddenly occurs far more often than recorded.
var suppressKnown = map[string]bool{}

type KnownEntry struct {
	MaxPermille int    `json:"max_permille,omitempty"` // alarm when the finding is seen in more than this share of runs (0 = no limit)
	Status      string `json:"status"`                 // open | fixed
	Property    string `json:"property"`
	Clause      string `json:"clause"`
	Sig         string `json:"sig"`
	What        string `json:"what"`
	Commit      string `json:"commit,omitempty"`
}

type knownSet struct{ entries []KnownEntry }

func loadKnown(prop string) *knownSet {
	ks := &knownSet{}
	b, err := os.ReadFile(filepath.Join(home, "known_findings.json"))
	if err != nil {
		return ks
	}
	var all []KnownEntry
	if err := json.Unmarshal(b, &all); err != nil {
		infra("known_findings.json: %v", err)
	}
	// VERIF_IGNORE_KNOWN=all|<sig>[,<sig>...]: maintenance only (regenerating the replay file of a
	// recorded finding after the harness changed): the named findings are reported like new ones.
	ign := os.Getenv("VERIF_IGNORE_KNOWN")
	for _, e := range all {
		if ign == "all" || (ign != "" && strings.Contains(","+ign+",", ","+e.Sig+",")) {
			continue
		}
		if e.Property == prop && e.Status == "open" && !suppressKnown[e.Clause+"|"+e.Sig] {
			ks.entries = append(ks.entries, e)
		}
	}
	return ks
}

func (k *knownSet) sigs() []KnownSig {
	var r []KnownSig
	for _, e := range k.entries {
		r = append(r, KnownSig{e.Clause, e.Sig})
	}
	return r
}

func (k *knownSet) match(v *Violation) string {
	for _, e := range k.entries {
		if e.Clause == v.Clause && e.Sig == v.Sig {
			return e.Clause + "|" + e.Sig
		}
	}
	return ""
}

func (k *knownSet) limit(key string) int {
	for _, e := range k.entries {
		if e.Clause+"|"+e.Sig == key {
			return e.MaxPermille
		}
	}
	return 0
}

func (k *knownSet) describe(key string) string {
	for _, e := range k.entries {
		if e.Clause+"|"+e.Sig == key {
			return fmt.Sprintf("clause=%s site=%s: %s", e.Clause, e.Sig, e.What)
		}
	}
	return key
}

// ---- evidence ------------------------------------------------------------------------

// subRules: the drawing rules of the sub-checks whose runs are merged into p's evidence.
func subRules(p *Prop) string {
	r := ""
	for _, id := range p.Also {
		if sub := propByID(id); sub != nil && !strings.Contains(p.Rule, sub.Rule) {
			r += " Sub-check " + sub.Rule
		}
	}
	return r
}

func writeEvidence(p *Prop, h *Harness, bi *buildInfo, tier string, seed uint64, a *agg, wall float64, viol *RunResult, replay string) {
	var warnings []string
	if tier == "thorough" {
		for _, pr := range p.ExpectProbes {
			if a.probes[pr] == 0 {
				warnings = append(warnings, "probe never hit: "+pr)
			}
		}
	}
	var samples []any
	for _, s := range a.samples {
		samples = append(samples, s)
	}
	if len(samples) == 0 && viol != nil {
		samples = append(samples, viol)
	}
	nviol := 0
	if viol != nil {
		nviol = 1
	}
	var knownSeen []string
	for _, k := range sortedKeys(a.known) {
		knownSeen = append(knownSeen, fmt.Sprintf("%s x%d", k, a.known[k]))
	}
	ev := map[string]any{
		"property_id": p.ID, "tier": tier, "seed": int64(seed), "level": p.Level, "wall_s": wall, "violations": nviol,
		"assumptions": append([]string{
			"built with go1.26.8 and testing/synctest (timers follow Go >= 1.23 channel semantics); the repository targets an older toolchain",
			"sampling, not proof: a clean batch is evidence only for the schedules, inputs and fault sequences actually drawn",
			"select priority is source order and map iteration is sorted in instrumented files (each one legal behaviour)",
		}, p.Assumptions...),
		"coverage": map[string]any{
			"evaluations":                    a.runs,
			"distinct_nontrivial":            len(a.nontriv),
			"rule":                           "one evaluation = one simulated run of the real code under the seeded scheduler (workload, configuration knobs, fault plan and every scheduling decision drawn from VERIF_SEED and the run index). distinct = distinct vector of recorded choices (workload+faults+schedule); non-trivial = at least one fault fired or at least one scheduling decision had more than one candidate. " + p.Rule + subRules(p),
			"samples":                        samples,
			"runs_per_hour":                  float64(a.runs) / wall * 3600,
			"run_index_range":                []int{0, a.runs},
			"simulated_seconds":              a.simSeconds,
			"steps_total":                    a.steps,
			"contended_decisions":            a.contended,
			"faults_fired":                   a.faults,
			"probes":                         a.probes,
			"distinct_schedules":             len(a.sched),
			"distinct_end_states":            len(a.ends),
			"strategies":                     a.strat,
			"truncated_runs":                 a.truncated,
			"runs_with_abandoned_goroutines": a.leaked,
			"batches_retried_after_unreproducible_infrastructure_problem": a.infraRetries,
			"components":          map[string]any{"real": p.Real, "stub": p.Stub},
			"rewriter":            bi.Rewriter,
			"toolchain":           "go1.26.8 testing/synctest",
			"pure_ride_along":     p.PureRideAlong,
			"coverage_warnings":   warnings,
			"known_findings_seen": knownSeen,
			"build_s":             bi.BuildS,
			"replay":              replay,
		},
	}
	b, _ := json.MarshalIndent(ev, "", " ")
	evdir := filepath.Join(home, "evidence")
	if repo != "/repo" {
		// a run against a scratch copy (mutation testing) must not overwrite the committed evidence
		evdir = filepath.Join(build, "evidence-scratch")
	}
	os.MkdirAll(evdir, 0755)
	if err := os.WriteFile(filepath.Join(evdir, p.ID+".json"), b, 0644); err != nil {
		infra("%v", err)
	}
}
