//go:build go1.26

package keepclient

import (
	"bytes"
	"crypto/md5"
	"encoding/json"
	"fmt"
	"io"
	"strings"
	"time"

	"git.arvados.org/arvados.git/sdk/go/arvadosclient"
	"verif.local/vsim"
)

// ---- C03: the Keep client never delivers bytes that mismatch the locator ---------------

var c03menu = []string{"correct", "flip", "short-cl", "short-nolen", "short-eof", "long-cl", "long-nolen", "cl-mismatch", "chunked-ok", "404", "408", "429", "500", "503", "connerr", "slow", "empty-200"}

type c03op struct {
	kind   int // 0 Get+ReadAll, 1 Get+ReadFull+Close, 2 ReadAt, 3 collection file read
	blk    int
	off, n int
	file   int
}

func scenC03(w *vsim.World, spec *vsim.Spec) {
	nsvc := w.Range("services", 1, 4)
	retries := w.Choose("retries", 3)
	maxBlocks := w.Range("cache-blocks", 1, 4)
	nblk := w.Range("blocks", 1, 6)
	var blocks [][]byte
	var locs []string
	byHash := map[string][]byte{}
	for i := 0; i < nblk; i++ {
		size := []int{0, 1, 2, 7, 64, 200, 1000}[w.Choose("size", 7)]
		b := make([]byte, size)
		for j := range b {
			b[j] = byte((i*53 + j*7) % 251)
		}
		if size > 0 {
			b[0] = byte(i + 1) // unique content per block
		}
		h := fmt.Sprintf("%x", md5.Sum(b))
		blocks = append(blocks, b)
		locs = append(locs, fmt.Sprintf("%s+%d+A%040x@5f5e1000", h, size, i+1))
		byHash[h] = b
	}
	// a collection whose two files span the blocks
	var all []byte
	for _, b := range blocks {
		all = append(all, b...)
	}
	cut := 0
	if len(all) > 0 {
		cut = w.Choose("file-cut", len(all)+1)
	}
	manifest := ". " + strings.Join(locs, " ") + fmt.Sprintf(" 0:%d:f0 %d:%d:f1\n", cut, cut, len(all)-cut)
	files := [][]byte{all[:cut], all[cut:]}

	var list svcList
	for i := 0; i < nsvc; i++ {
		list.Items = append(list.Items, keepService{Uuid: fmt.Sprintf("zzzzz-bi6l4-%015d", i), Hostname: fmt.Sprintf("keep%d", i), Port: 25107, SvcType: "disk"})
	}
	faultRate := []int{0, 150, 400, 800}[w.Choose("fault-rate", 4)]
	faultsOn := true
	served := make([]string, 8) // per reader task: behaviour of the last response addressed to it during the current operation
	readerIdx := map[string]int{}
	for i := 0; i < 8; i++ {
		readerIdx[fmt.Sprintf("reader%d", i)] = i
	}
	net := vsim.NewNet(w, func(r *vsim.NetRequest) *vsim.NetReply {
		hash := strings.SplitN(strings.TrimPrefix(r.Path, "/"), "+", 2)[0]
		b, ok := byHash[hash]
		rep := &vsim.NetReply{Latency: time.Duration(1+w.Choose("lat", 20)) * time.Millisecond}
		if !ok || r.Method != "GET" {
			rep.Status, rep.Body = 404, []byte("not found\n")
			return rep
		}
		o := "correct"
		if faultsOn && w.Chance("fault", faultRate) {
			o = c03menu[1+w.Choose("behaviour", len(c03menu)-1)]
			w.Fault("svc-" + o)
		}
		rep.Status = 200
		rep.EOFWithData = w.Chance("eof-with-data", 300)
		if i, ok := readerIdx[r.Task]; ok {
			served[i] = o
		}
		switch o {
		case "correct":
			rep.Body = b
		case "flip":
			rep.Body = append([]byte(nil), b...)
			if len(b) == 0 {
				rep.Body = []byte{0x55}
			} else {
				p := w.Choose("flip-pos", len(b))
				rep.Body[p] ^= 1 << uint(w.Choose("flip-bit", 8))
			}
		case "short-cl", "short-nolen", "short-eof":
			if len(b) == 0 {
				rep.Body = b
				break
			}
			n := w.Choose("short-len", len(b))
			rep.Body = append([]byte(nil), b[:n]...)
			if o == "short-nolen" {
				rep.NoLength = true
			} else if o == "short-eof" {
				rep.SetCL, rep.ContentLength = true, int64(len(b))
				rep.BodyErr = io.ErrUnexpectedEOF
			}
		case "long-cl", "long-nolen":
			rep.Body = append(append([]byte(nil), b...), bytes.Repeat([]byte{'x'}, 1+w.Choose("extra", 5))...)
			rep.NoLength = o == "long-nolen"
		case "cl-mismatch":
			rep.Body = b
			rep.SetCL, rep.ContentLength = true, int64(len(b)+1+w.Choose("cl-off", 3))
		case "chunked-ok":
			rep.Body, rep.NoLength = b, true
		case "empty-200":
			rep.Body = nil
		case "connerr":
			rep.Err = vsim.ErrConnReset
		case "slow":
			rep.Body = b
			rep.Latency = time.Duration(5+w.Choose("slow", 100)) * time.Second
		default:
			fmt.Sscanf(o, "%d", &rep.Status)
			rep.Body = []byte("simulated " + o + "\n")
		}
		return rep
	})
	kc := &KeepClient{Arvados: &arvadosclient.ArvadosClient{ApiToken: "tok"}, Want_replicas: 1, Retries: retries, HTTPClient: net, BlockCache: &BlockCache{MaxBlocks: maxBlocks}}
	lj, _ := json.Marshal(list)
	if err := kc.LoadKeepServicesFromJSON(string(lj)); err != nil {
		w.Infra("%v", err)
		return
	}
	nreaders := w.Range("readers", 1, 6)
	sameBlock := w.Chance("all-readers-same-block", 300)
	finished := 0
	for r := 0; r < nreaders; r++ {
		r := r
		var ops []c03op
		for len(ops) < 40 && w.Choose(fmt.Sprintf("r%d-more", r), 8) != 0 {
			o := c03op{kind: w.Choose(fmt.Sprintf("r%d-kind", r), 4), blk: w.Choose(fmt.Sprintf("r%d-blk", r), nblk), file: w.Choose(fmt.Sprintf("r%d-file", r), 2)}
			if sameBlock {
				o.blk = 0
			}
			o.off = w.Choose(fmt.Sprintf("r%d-off", r), 1100)
			o.n = 1 + w.Choose(fmt.Sprintf("r%d-n", r), 1100)
			ops = append(ops, o)
		}
		w.Spawn(fmt.Sprintf("reader%d", r), func() {
			for i, o := range ops {
				if w.Failed() {
					return
				}
				vsim.Yield("op", "reader")
				served[r] = ""
				c03do(w, kc, o, blocks, locs, manifest, files, fmt.Sprintf("reader%d op%d", r, i), func() string { return served[r] })
			}
			finished++
		})
	}
	w.Run(nil)
	if w.Failed() || w.Truncated() {
		return
	}
	if !w.AllDone() {
		w.Violation("c03/reader-stuck", "%s", strings.Join(w.Blocked(), "; "))
		return
	}
	// faults stop: every block must be readable again through the shared cache (no poisoned entry)
	faultsOn = false
	ok := false
	w.Spawn("recovery", func() {
		for i := range blocks {
			p := make([]byte, len(blocks[i])+1)
			n, err := kc.ReadAt(locs[i], p, 0)
			if err != nil || !bytes.Equal(p[:n], blocks[i]) {
				w.Violation("c03/cache-poisoned-after-faults", "after faults stopped ReadAt(block %d) = %d bytes, err=%v; want the %d-byte block", i, n, err, len(blocks[i]))
				return
			}
			rdr, _, _, err := kc.Get(locs[i])
			if err != nil {
				w.Violation("c03/get-fails-after-faults", "after faults stopped Get(block %d): %v", i, err)
				return
			}
			got, err := io.ReadAll(rdr)
			rdr.Close()
			if err != nil || !bytes.Equal(got, blocks[i]) {
				w.Violation("c03/get-fails-after-faults", "after faults stopped Get(block %d) read %d bytes err=%v", i, len(got), err)
				return
			}
		}
		ok = true
	})
	w.Run(nil)
	if w.Failed() || w.Truncated() {
		return
	}
	if !ok {
		w.Violation("c03/reader-stuck", "recovery reads never finished: %s", strings.Join(w.Blocked(), "; "))
	}
	w.SetEndState(fmt.Sprintf("%d readers done, %d blocks", finished, nblk))
}

func c03do(w *vsim.World, kc *KeepClient, o c03op, blocks [][]byte, locs []string, manifest string, files [][]byte, tag string, served func() string) {
	overlong := func() bool { s := served(); return s == "long-cl" || s == "long-nolen" }
	want := blocks[o.blk]
	switch o.kind {
	case 0: // streaming Get, read to EOF
		rdr, size, _, err := kc.Get(locs[o.blk])
		if err != nil {
			w.Probe("get-error")
			return
		}
		got, rerr := io.ReadAll(rdr)
		cerr := rdr.Close()
		if rerr == nil {
			if !bytes.Equal(got, want) {
				w.Violation("c03/get-delivered-wrong-bytes", "%s: Get(%s) streamed %d bytes to a clean EOF that are not the block (%d bytes); close err=%v", tag, locs[o.blk][:12], len(got), len(want), cerr)
				return
			}
			if size != int64(len(want)) {
				w.Violation("c03/get-wrong-size", "%s: Get reported size %d for a %d-byte block", tag, size, len(want))
			}
			if overlong() && cerr == nil {
				w.Violation("c03/overlong-response-accepted", "%s: the service answered with an over-long body, yet Get streamed to EOF and closed without any error", tag)
			}
			w.Probe("get-ok")
		} else {
			w.Probe("get-read-error")
		}
	case 1: // Get, read exactly `size` bytes, then Close must vouch for them
		rdr, size, _, err := kc.Get(locs[o.blk])
		if err != nil {
			w.Probe("get-error")
			return
		}
		buf := make([]byte, size)
		_, rerr := io.ReadFull(rdr, buf)
		cerr := rdr.Close()
		if rerr == nil && cerr == nil {
			if !bytes.Equal(buf, want) {
				w.Violation("c03/get-delivered-wrong-bytes", "%s: Get(%s): ReadFull(%d) and Close both succeeded but the bytes are not the block", tag, locs[o.blk][:12], size)
				return
			}
			if overlong() {
				w.Violation("c03/overlong-response-accepted", "%s: the service answered with an over-long body, yet ReadFull(size)+Close reported no error", tag)
			}
			w.Probe("get-readfull-ok")
		}
	case 2: // cached ReadAt
		off := o.off % (len(want) + 2)
		p := make([]byte, o.n)
		n, err := kc.ReadAt(locs[o.blk], p, off)
		if err != nil {
			w.Probe("readat-error")
			return
		}
		var exp []byte
		if off <= len(want) {
			exp = want[off:]
			if len(exp) > o.n {
				exp = exp[:o.n]
			}
		}
		if !bytes.Equal(p[:n], exp) {
			w.Violation("c03/readat-delivered-wrong-bytes", "%s: ReadAt(%s, off=%d, len=%d) returned %d bytes without error that differ from the block's bytes at that range (%d expected)", tag, locs[o.blk][:12], off, o.n, n, len(exp))
			return
		}
		w.Probe("readat-ok")
	case 3: // collection file backed by the client
		f, err := kc.CollectionFileReader(map[string]interface{}{"manifest_text": manifest}, fmt.Sprintf("f%d", o.file))
		if err != nil {
			w.Infra("CollectionFileReader: %v", err)
			return
		}
		defer f.Close()
		fw := files[o.file]
		off := 0
		if len(fw) > 0 {
			off = o.off % (len(fw) + 1)
		}
		if _, err := f.Seek(int64(off), io.SeekStart); err != nil {
			w.Infra("seek: %v", err)
			return
		}
		buf := make([]byte, o.n)
		got := 0
		var rerr error
		for got < o.n && rerr == nil {
			var n int
			n, rerr = f.Read(buf[got:])
			got += n
			if n == 0 && rerr == nil {
				w.Violation("c03/file-read-no-progress", "%s: Read returned 0, nil", tag)
				return
			}
		}
		exp := fw[off:]
		if len(exp) > o.n {
			exp = exp[:o.n]
		}
		if rerr == nil || rerr == io.EOF {
			if !bytes.Equal(buf[:got], exp) {
				w.Violation("c03/file-read-delivered-wrong-bytes", "%s: reading f%d at %d returned %d bytes (err=%v) that differ from the file content (%d expected)", tag, o.file, off, got, rerr, len(exp))
				return
			}
			w.Probe("file-read-ok")
		} else {
			// an error is acceptable, but bytes handed out before it must still be right
			if !bytes.Equal(buf[:got], exp[:min(got, len(exp))]) || got > len(exp) {
				w.Violation("c03/file-read-delivered-wrong-bytes", "%s: reading f%d at %d: %d bytes delivered before the error %v are not the file content", tag, o.file, off, got, rerr)
				return
			}
			w.Probe("file-read-error")
		}
	}
}
