//go:build go1.26

package keepclient

import (
	"bytes"
	"crypto/md5"
	"encoding/json"
	"fmt"
	"io"
	"sort"
	"strings"
	"time"

	"git.arvados.org/arvados.git/sdk/go/arvadosclient"
	"verif.local/vsim"
)

// ---- C11: Put succeeds only with enough confirmed replicas ---------------------------

type c11svc struct {
	uuid, host, typ string
	readOnly        bool
	alwaysAccept    bool
	answers         []string // outcome names, in the order requests were handled
	delivered       []string // outcomes delivered to the client before it returned
}

var c11menu = []string{"200rs1", "200rs2", "200nohdr", "400", "403", "408", "429", "500", "502", "503", "connerr", "slow200"}

func transient(o string) bool {
	switch o {
	case "408", "429", "500", "502", "connerr":
		return true
	}
	return false
}

func accepted(o string) int {
	switch o {
	case "200rs1", "200nohdr", "slow200":
		return 1
	case "200rs2":
		return 2
	}
	return 0
}

// piecewiseReader hands the body out in small pieces (PutHR's reader argument).
type piecewiseReader struct {
	b    []byte
	step int
}

func (p *piecewiseReader) Read(q []byte) (int, error) {
	if len(p.b) == 0 {
		return 0, io.EOF
	}
	n := p.step
	if n > len(p.b) {
		n = len(p.b)
	}
	if n > len(q) {
		n = len(q)
	}
	copy(q, p.b[:n])
	p.b = p.b[n:]
	return n, nil
}

func scenC11(w *vsim.World, spec *vsim.Spec) {
	nW := w.Range("writable", 1, 5)
	nR := w.Choose("readonly", 3)
	want := w.Range("want", 1, 3)
	retries := w.Choose("retries", 4)
	allDisk := w.Chance("all-disk", 500)
	svcs := map[string]*c11svc{} // by host
	var list svcList
	rnd := w.NewRand("uuids")
	for i := 0; i < nW+nR; i++ {
		s := &c11svc{uuid: fmt.Sprintf("zzzzz-bi6l4-%015x", rnd.Uint64()&0xfffffffffffffff), host: fmt.Sprintf("keep%d:25107", i), typ: "disk", readOnly: i >= nW}
		if !allDisk && rnd.Intn(2) == 0 {
			s.typ = "proxy"
		}
		svcs[s.host] = s
		list.Items = append(list.Items, keepService{Uuid: s.uuid, Hostname: fmt.Sprintf("keep%d", i), Port: 25107, SvcType: s.typ, ReadOnly: s.readOnly})
	}
	// a subset of writable services accepts on every attempt (0 = none, the default is drawn per service)
	nAlways := 0
	for i := 0; i < nW; i++ {
		if w.Chance(fmt.Sprintf("always-accept-%d", i), 300) {
			svcs[fmt.Sprintf("keep%d:25107", i)].alwaysAccept = true
			nAlways++
		}
	}
	size := w.Choose("size", 40)
	data := w.Bytes("data", size)
	hash := fmt.Sprintf("%x", md5.Sum(data))
	api := w.Choose("api", 3) // PutB, PutHB, PutHR
	pieces := 1 + w.Choose("piece", 7)

	returned := false
	sum200 := 0         // replicas confirmed in 200 responses delivered before the return
	locators := map[string]bool{}
	sigN := 0
	var viol []string
	bad := func(clause, f string, a ...any) { w.Violation(clause, f, a...) }

	net := vsim.NewNet(w, func(r *vsim.NetRequest) *vsim.NetReply {
		s := svcs[r.Host]
		if s == nil {
			bad("c11/unknown-destination", "request to %s", r.Host)
			return nil
		}
		if r.Method != "PUT" || r.Path != "/"+hash {
			bad("c11/bad-request", "%s %s", r.Method, r.Path)
		}
		if s.readOnly {
			bad("c11/read-only-service-written", "PUT sent to read-only service %s", s.host)
		}
		if !bytes.Equal(r.Body, data) {
			bad("c11/body-mismatch", "service %s received %d bytes, block has %d", s.host, len(r.Body), len(data))
		}
		if n := len(s.answers); n > 0 {
			if !transient(s.answers[n-1]) {
				bad("c11/retry-after-final-answer", "service %s asked again after %s", s.host, s.answers[n-1])
			}
			if n >= 1+retries {
				bad("c11/too-many-attempts", "service %s got request #%d with Retries=%d", s.host, n+1, retries)
			}
			w.Probe("retry-round")
		}
		o := "200rs1"
		if !s.alwaysAccept {
			o = c11menu[w.Choose("outcome "+s.host, len(c11menu))]
		}
		s.answers = append(s.answers, o)
		if o != "200rs1" {
			w.Fault("svc-" + o)
		}
		rep := &vsim.NetReply{Latency: time.Duration(1+w.Choose("lat", 50)) * time.Millisecond}
		switch o {
		case "connerr":
			rep.Err = vsim.ErrConnReset
		case "200rs1", "200rs2", "200nohdr", "slow200":
			sigN++
			rep.Status = 200
			rep.Body = []byte(fmt.Sprintf("%s+%d+A%040x@5f000000\n", hash, len(data), sigN))
			rep.Header = map[string][]string{}
			if o == "200rs2" {
				rep.Header.Set(XKeepReplicasStored, "2")
				w.Probe("replicas-header-2")
			} else if o != "200nohdr" {
				rep.Header.Set(XKeepReplicasStored, "1")
			}
			if o == "slow200" {
				rep.Latency = time.Duration(30+w.Choose("slow", 600)) * time.Second
			}
		default:
			fmt.Sscanf(o, "%d", &rep.Status)
			rep.Body = []byte("simulated refusal\n")
		}
		return rep
	})
	net.OnDeliver = func(r *vsim.NetRequest, rep *vsim.NetReply) {
		s := svcs[r.Host]
		if s == nil || returned {
			return
		}
		o := s.answers[len(s.delivered)]
		s.delivered = append(s.delivered, o)
		if n := accepted(o); n > 0 {
			sum200 += n
			locators[strings.TrimSpace(string(rep.Body))] = true
		}
	}

	kc := &KeepClient{Arvados: &arvadosclient.ArvadosClient{ApiToken: "tok"}, Want_replicas: want, Retries: retries, HTTPClient: net}
	lj, _ := json.Marshal(list)
	if err := kc.LoadKeepServicesFromJSON(string(lj)); err != nil {
		w.Infra("LoadKeepServicesFromJSON: %v", err)
		return
	}
	var loc string
	var rep int
	var err error
	var sumAtReturn int
	var locsAtReturn map[string]bool
	w.Spawn("client", func() {
		switch api {
		case 0:
			loc, rep, err = kc.PutB(data)
		case 1:
			loc, rep, err = kc.PutHB(hash, data)
		default:
			loc, rep, err = kc.PutHR(hash, &piecewiseReader{b: append([]byte(nil), data...), step: pieces}, int64(len(data)))
		}
		returned = true
		sumAtReturn = sum200
		locsAtReturn = locators
		w.Logf("put returned loc=%q rep=%d err=%v", loc, rep, err != nil) // the error text is built from a map range in the code under test
	})
	w.Run(nil) // also drains abandoned uploads
	if w.Failed() || w.Truncated() {
		return
	}
	if !returned {
		w.Violation("c11/put-never-returned", "%s", strings.Join(w.Blocked(), "; "))
		return
	}
	_ = viol
	if err == nil {
		w.Probe("put-ok")
		if sumAtReturn < want {
			w.Violation("c11/success-without-enough-replicas", "Put returned nil error with %d replicas confirmed in delivered 200 responses, want %d (returned count %d)", sumAtReturn, want, rep)
		}
		if !locsAtReturn[loc] {
			w.Violation("c11/locator-not-issued-by-a-service", "returned locator %q is not the body of a delivered 200 response", loc)
		}
		if !strings.HasPrefix(loc, fmt.Sprintf("%s+%d", hash, len(data))) {
			w.Violation("c11/locator-hash-size", "returned locator %q does not start with %s+%d", loc, hash, len(data))
		}
		if rep < want {
			w.Violation("c11/success-count-below-want", "nil error but replica count %d < %d", rep, want)
		}
	} else {
		w.Probe("put-insufficient")
		if _, ok := err.(InsufficientReplicasError); !ok {
			w.Violation("c11/wrong-error-type", "error %T %v is not InsufficientReplicasError", err, err)
		}
		if rep != sumAtReturn {
			w.Violation("c11/failure-count-wrong", "error returned with count %d, but %d replicas were confirmed in delivered 200 responses", rep, sumAtReturn)
		}
		if sumAtReturn >= want {
			w.Violation("c11/failure-despite-enough-replicas", "error returned although %d >= %d replicas were confirmed", sumAtReturn, want)
		}
		if nAlways >= want {
			w.Violation("c11/failure-despite-enough-accepting-services", "%d writable services accept on every attempt, want %d, yet Put failed: %v", nAlways, want, err)
		}
		// every writable service whose answers were all transient must have been retried up to the limit
		hosts := make([]string, 0, len(svcs))
		for h := range svcs {
			hosts = append(hosts, h)
		}
		sort.Strings(hosts)
		for _, h := range hosts {
			s := svcs[h]
			if s.readOnly {
				continue
			}
			allTransient := true
			for _, o := range s.answers {
				if !transient(o) {
					allTransient = false
				}
			}
			if allTransient && len(s.answers) != 1+retries {
				w.Violation("c11/transient-not-retried", "Put gave up although service %s only ever failed transiently (%v) and was asked %d times with Retries=%d", s.host, s.answers, len(s.answers), retries)
			}
		}
	}
	st := []string{fmt.Sprint(err == nil, rep, want, retries)}
	for _, h := range func() []string {
		hs := make([]string, 0)
		for h := range svcs {
			hs = append(hs, h)
		}
		sort.Strings(hs)
		return hs
	}() {
		st = append(st, strings.Join(svcs[h].answers, ","))
	}
	w.SetEndState(strings.Join(st, "|"))
}
