//go:build go1.26

package keepclient

import (
	"crypto/md5"
	"encoding/json"
	"fmt"
	"sort"
	"strings"
	"time"

	"git.arvados.org/arvados.git/sdk/go/arvadosclient"
	"verif.local/vsim"
)

// ---- C12: one rendezvous probe order for readers and writers ---------------------------
// The order function itself is pure; what the simulation observes is the ORDER OF ARRIVAL
// of requests on the simulated wire under misses and refusals.

type c12svc struct {
	uuid, host string
	readOnly   bool
}

// refOrder is written from the property text / keep-clients document: services sorted by
// descending MD5 hex of (block hash + last 15 characters of a 27-character uuid; the whole
// uuid otherwise).
func refOrder(hash string, svcs []c12svc) []c12svc {
	w := func(s c12svc) string {
		u := s.uuid
		if len(u) == 27 {
			u = u[12:]
		}
		return fmt.Sprintf("%x", md5.Sum([]byte(hash+u)))
	}
	out := append([]c12svc(nil), svcs...)
	sort.SliceStable(out, func(i, j int) bool { return w(out[i]) > w(out[j]) })
	return out
}

func c12uuid(r *vsim.Rand, kind int, i int) string {
	const alnum = "0123456789abcdefghijklmnopqrstuvwxyz"
	switch kind {
	case 0:
		b := make([]byte, 15)
		for j := range b {
			b[j] = alnum[r.Intn(len(alnum))]
		}
		return "zzzzz-bi6l4-" + string(b)
	case 1:
		return fmt.Sprintf("svc%d", i) // short id (tests, single-service setups)
	default:
		b := make([]byte, 20+r.Intn(20))
		for j := range b {
			b[j] = alnum[r.Intn(len(alnum))]
		}
		if len(b) == 27 {
			b = append(b, 'x')
		}
		return string(b) + fmt.Sprint(i)
	}
}

func c12client(net *vsim.Net, svcs []c12svc, retries, want int) (*KeepClient, error) {
	var list svcList
	for _, s := range svcs {
		hp := strings.SplitN(s.host, ":", 2)
		var port int
		fmt.Sscan(hp[1], &port)
		list.Items = append(list.Items, keepService{Uuid: s.uuid, Hostname: hp[0], Port: port, SvcType: "disk", ReadOnly: s.readOnly})
	}
	kc := &KeepClient{Arvados: &arvadosclient.ArvadosClient{ApiToken: "tok"}, Want_replicas: want, Retries: retries, HTTPClient: net, BlockCache: &BlockCache{}}
	lj, _ := json.Marshal(list)
	return kc, kc.LoadKeepServicesFromJSON(string(lj))
}

func scenC12(w *vsim.World, spec *vsim.Spec) {
	n := 1 + w.Choose("services", 32)
	if spec.Tier != "thorough" && n > 12 {
		n = 1 + n%12
	}
	rnd := w.NewRand("uuids")
	uuidKind := w.Choose("uuid-kind", 3)
	var svcs []c12svc
	for i := 0; i < n; i++ {
		k := uuidKind
		if uuidKind == 2 {
			k = rnd.Intn(3)
		}
		svcs = append(svcs, c12svc{uuid: c12uuid(rnd, k, i), host: fmt.Sprintf("keep%d:%d", i, 25107+i), readOnly: rnd.Intn(5) == 0})
	}
	data := w.Bytes("data", 1+w.Choose("size", 20))
	hash := fmt.Sprintf("%x", md5.Sum(data))
	retries := w.Choose("retries", 3)

	// ---- read order under misses -------------------------------------------------------
	var hints []string
	var expectHosts []string
	for i, nh := 0, w.Choose("hints", 4); i < nh; i++ {
		switch w.Choose("hint-kind", 4) {
		case 0: // 5-character cluster form
			c := fmt.Sprintf("c%04d", rnd.Intn(10000))
			hints = append(hints, "K@"+c)
			expectHosts = append(expectHosts, "keep."+c+".arvadosapi.com")
		case 1: // 27-character gateway form, known service
			s := svcs[rnd.Intn(len(svcs))]
			if len(s.uuid) != 27 {
				continue
			}
			hints = append(hints, "K@"+s.uuid)
			expectHosts = append(expectHosts, s.host)
		case 2: // 27-character form, unknown service: no use, skipped
			hints = append(hints, "K@zzzzz-bi6l4-unknownunknown0")
		default: // some other hint
			hints = append(hints, "Zfoo")
		}
	}
	locator := fmt.Sprintf("%s+%d", hash, len(data))
	if len(hints) > 0 {
		// hints in any position around a signature hint
		sig := fmt.Sprintf("A%040x@5f5e1000", 1)
		all := append([]string{}, hints...)
		pos := w.Choose("sig-pos", len(all)+1)
		all = append(all[:pos], append([]string{sig}, all[pos:]...)...)
		locator += "+" + strings.Join(all, "+")
	}
	for _, s := range refOrder(hash, svcs) {
		expectHosts = append(expectHosts, s.host)
	}
	var arrivals []string
	mode := "read"
	var contactedW map[string]bool
	var orderW []c12svc
	refusals := 0
	net := vsim.NewNet(w, func(r *vsim.NetRequest) *vsim.NetReply {
		rep := &vsim.NetReply{Latency: time.Duration(1+w.Choose("lat", 30)) * time.Millisecond}
		if mode == "read" {
			arrivals = append(arrivals, r.Host)
			switch w.Choose("miss-kind", 4) {
			case 0, 1:
				rep.Status = 404
			case 2:
				rep.Status = 500
				w.Fault("svc-500")
			default:
				rep.Err = vsim.ErrConnReset
				w.Fault("svc-connerr")
			}
			rep.Body = []byte("miss\n")
			return rep
		}
		// write: the set contacted so far (handled + pending on the wire) must be a prefix of the order
		contactedW[r.Host] = true
		all := map[string]bool{}
		for h := range contactedW {
			all[h] = true
		}
		for _, res := range w.ParkedRes("net-send") {
			f := strings.Fields(res)
			if len(f) > 1 {
				all[strings.SplitN(f[1], "/", 2)[0]] = true
			}
		}
		gap := ""
		for _, s := range orderW {
			if !all[s.host] {
				gap = s.host
			} else if gap != "" {
				w.Violation("c12/write-not-in-rendezvous-order", "writer contacted %s before %s, which precedes it in the rendezvous order of the writable services", s.host, gap)
				break
			}
		}
		for _, s := range svcs {
			if s.host == r.Host && s.readOnly {
				w.Violation("c12/read-only-service-written", "PUT sent to read-only service %s", s.host)
			}
		}
		if w.Chance("refuse", 500) {
			refusals++
			rep.Status = []int{403, 500, 503, 400}[w.Choose("refusal", 4)]
			w.Fault("svc-refusal")
			rep.Body = []byte("refused\n")
			return rep
		}
		rep.Status = 200
		rep.Header = map[string][]string{XKeepReplicasStored: {"1"}}
		rep.Body = []byte(fmt.Sprintf("%s+%d+A%040x@5f5e1000\n", hash, len(data), 7))
		return rep
	})
	kc, err := c12client(net, svcs, retries, 1)
	if err != nil {
		w.Infra("%v", err)
		return
	}
	// membership change: the same hash against S plus / minus one service
	svcs2 := append([]c12svc(nil), svcs...)
	if len(svcs2) > 1 && w.Chance("remove-one", 500) {
		i := w.Choose("which", len(svcs2))
		svcs2 = append(svcs2[:i], svcs2[i+1:]...)
	} else {
		svcs2 = append(svcs2, c12svc{uuid: c12uuid(rnd, 0, 99), host: "keep99:25999"})
	}
	kc2, err := c12client(net, svcs2, 0, 1)
	if err != nil {
		w.Infra("%v", err)
		return
	}
	var arr1, arr2, arr3 []string
	// a second read of the SAME hash through the SAME client with different hints (none, or one
	// 5-character cluster hint): the probe order must follow the locator at hand, not an earlier one
	locator3 := fmt.Sprintf("%s+%d", hash, len(data))
	var expect3 []string
	if len(hints) == 0 || w.Chance("second-read-hinted", 300) {
		c := fmt.Sprintf("d%04d", rnd.Intn(10000))
		locator3 += "+K@" + c
		expect3 = append(expect3, "keep."+c+".arvadosapi.com")
	}
	for _, s := range refOrder(hash, svcs) {
		expect3 = append(expect3, s.host)
	}
	secondFirst := w.Chance("second-read-first", 500)
	wantW := 1 + w.Choose("want", 3)
	var writable []c12svc
	for _, s := range svcs {
		if !s.readOnly {
			writable = append(writable, s)
		}
	}
	// a concurrent ranker: another goroutine of the same process ranks the same services for other
	// hashes while the client works (as keep-balance's workers and multi-threaded clients do), and a
	// task may lose the processor before any statement of the weight function (rule R9)
	rankerDone := true
	if nr := w.Choose("concurrent-ranker", 3); nr != 0 {
		w.PreemptOn = true
		rankerDone = false
		rounds := 2 + 3*nr
		roots := map[string]string{}
		for _, s := range svcs {
			roots[s.uuid] = "http://" + s.host
		}
		w.Spawn("ranker", func() {
			for k := 0; k < rounds && !w.Failed(); k++ {
				h := fmt.Sprintf("%x", md5.Sum([]byte(fmt.Sprintf("ranked block %d", k))))
				got := NewRootSorter(roots, h).GetSortedRoots()
				var want []string
				for _, s := range refOrder(h, svcs) {
					want = append(want, "http://"+s.host)
				}
				if strings.Join(got, " ") != strings.Join(want, " ") {
					w.Violation("c12/ranking-differs-from-reference", "a concurrent ranking of %s gave %v, the reference order is %v", h, got, want)
					return
				}
				w.Probe("concurrent-ranking-checked")
			}
			rankerDone = true
		})
	}
	done := false
	w.Spawn("client", func() {
		if secondFirst {
			kc.Get(locator3)
			arr3 = arrivals
			arrivals = nil
			vsim.Yield("op", "client")
		}
		_, _, _, err := kc.Get(locator)
		if err == nil {
			w.Violation("c12/get-succeeded-on-all-miss", "Get returned no error although every service missed")
			return
		}
		arr1 = arrivals
		if !secondFirst {
			vsim.Yield("op", "client")
			arrivals = nil
			kc.Get(locator3)
			arr3 = arrivals
		}
		vsim.Yield("op", "client")
		arrivals = nil
		kc2.Get(fmt.Sprintf("%s+%d", hash, len(data)))
		arr2 = arrivals
		vsim.Yield("op", "client")
		if len(writable) > 0 {
			mode = "write"
			contactedW = map[string]bool{}
			orderW = refOrder(hash, writable)
			kcw, _ := c12client(net, svcs, 0, wantW)
			kcw.PutB(data)
		}
		done = true
	})
	w.Run(nil)
	if w.Failed() || w.Truncated() {
		return
	}
	if !done || !rankerDone {
		w.Violation("c12/client-stuck", "%s", strings.Join(w.Blocked(), "; "))
		return
	}
	// read order: round 1 must be exactly hints-then-rendezvous order; later rounds (retries of
	// transient failures) keep the same relative order
	if len(arr1) < len(expectHosts) || strings.Join(arr1[:len(expectHosts)], " ") != strings.Join(expectHosts, " ") {
		w.Violation("c12/read-order", "a GET that misses everywhere contacted %v; expected usable hints first, then the rendezvous order: %v (locator %s)", arr1, expectHosts, locator)
		return
	}
	// (a hinted service may legitimately appear twice in the order: as a hint and as a local root)
	rounds, last := 1, -1
	for _, h := range arr1[len(expectHosts):] {
		find := func(from int) int {
			for i := from; i < len(expectHosts); i++ {
				if expectHosts[i] == h {
					return i
				}
			}
			return -1
		}
		p := find(last + 1)
		if p < 0 {
			rounds++
			if p = find(0); p < 0 {
				w.Violation("c12/read-order", "retry contacted unknown host %s", h)
				return
			}
		}
		last = p
	}
	if rounds > 1+retries {
		w.Violation("c12/read-order", "retries of a missed GET do not follow the probe order: arrivals %v (expected order %v, Retries=%d)", arr1, expectHosts, retries)
		return
	}
	if len(arr3) < len(expect3) || strings.Join(arr3[:len(expect3)], " ") != strings.Join(expect3, " ") {
		w.Violation("c12/read-order", "a second GET of the same hash through the same client (locator %s, issued %s the first one, locator %s) contacted %v; expected its own usable hints first, then the rendezvous order: %v", locator3, map[bool]string{true: "before", false: "after"}[secondFirst], locator, arr3, expect3)
		return
	}
	w.Probe("same-hash-read-twice-with-different-hints")
	if len(hints) > 0 {
		w.Probe("read-with-hints")
	}
	// membership: relative order of the common services is unchanged
	in2 := map[string]bool{}
	for _, s := range svcs2 {
		in2[s.host] = true
	}
	in1 := map[string]bool{}
	for _, s := range svcs {
		in1[s.host] = true
	}
	var c1, c2 []string
	for _, s := range refOrder(hash, svcs) {
		if in2[s.host] {
			c1 = append(c1, s.host)
		}
	}
	seen := map[string]bool{}
	for _, h := range arr2 {
		if in1[h] && !seen[h] {
			seen[h] = true
			c2 = append(c2, h)
		}
	}
	if strings.Join(c1, " ") != strings.Join(c2, " ") {
		w.Violation("c12/membership-change-reorders", "after adding/removing one service the common services were probed as %v, before as %v", c2, c1)
		return
	}
	w.Probe("membership-checked")
	if refusals > 0 {
		w.Probe("write-under-refusals")
	}
	w.SetEndState(fmt.Sprintf("%d services %d hints", n, len(hints)))
}
