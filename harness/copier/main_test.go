//go:build go1.26

//go:debug asynctimerchan=0

package crunchrun

import (
	"testing"

	"verif.local/vsim"
)

func TestVerif(t *testing.T) {
	vsim.Main(t, map[string]vsim.Scenario{"C17": scenC17})
}
