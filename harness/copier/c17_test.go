//go:build go1.26

package crunchrun

import (
	"bytes"
	"crypto/md5"
	"errors"
	"fmt"
	"io"
	"os"
	"path/filepath"
	"sort"
	"strings"

	"git.arvados.org/arvados.git/sdk/go/arvados"
	"git.arvados.org/arvados.git/sdk/go/arvadosclient"
	"git.arvados.org/arvados.git/sdk/go/manifest"
	"verif.local/vsim"
)

// ---- C17: a container's saved output is exactly what it left in its output directory ----

// Keep model (every call a parked point; failure decided when the write is granted).
type c17keep struct {
	w        *vsim.World
	blocks   map[string][]byte
	orig     map[string]bool
	issued   map[string]bool
	failRate int
	nput     int
	putBytes int
	nfailed  int
}

func (k *c17keep) store(b []byte) string {
	h := fmt.Sprintf("%x", md5.Sum(b))
	k.blocks[h] = append([]byte(nil), b...)
	return h
}

var errC17Keep = errors.New("simulated keep write failure")

func (k *c17keep) PutB(p []byte) (string, int, error) {
	type res struct {
		loc string
		err error
	}
	r := k.w.Park("keep-put", fmt.Sprintf("%x", md5.Sum(p))[:8], nil, func() any {
		k.nput++
		if k.failRate > 0 && k.w.Chance("keep-put-fail", k.failRate) {
			k.nfailed++
			k.w.Fault("keep-put-fail")
			return res{"", errC17Keep}
		}
		h := k.store(p)
		k.putBytes += len(p)
		loc := fmt.Sprintf("%s+%d+A%040x@5f5e1000", h, len(p), k.nput)
		k.issued[loc] = true
		return res{loc, nil}
	}).(res)
	if r.err != nil {
		return "", 0, r.err
	}
	return r.loc, 1, nil
}
func (k *c17keep) ReadAt(locator string, p []byte, off int) (int, error) {
	type res struct {
		n   int
		err error
	}
	r := k.w.Park("keep-read", locator[:8], nil, func() any {
		b, ok := k.blocks[locator[:32]]
		if !ok {
			return res{0, os.ErrNotExist}
		}
		if off > len(b) {
			return res{0, io.ErrUnexpectedEOF}
		}
		return res{copy(p, b[off:]), nil}
	}).(res)
	return r.n, r.err
}
func (k *c17keep) LocalLocator(l string) (string, error) { return l, nil }
func (k *c17keep) ClearBlockCache()                      {}
func (k *c17keep) ManifestFileReader(m manifest.Manifest, filename string) (arvados.File, error) {
	return nil, errors.New("not used")
}
func (k *c17keep) blockOf(locator string) ([]byte, bool) {
	if len(locator) < 32 {
		return nil, false
	}
	if locator[:32] == "d41d8cd98f00b204e9800998ecf8427e" {
		return []byte{}, true
	}
	b, ok := k.blocks[locator[:32]]
	return b, ok
}

type c17api struct{ colls map[string]string }

func (a *c17api) Get(resourceType string, uuid string, parameters arvadosclient.Dict, output interface{}) error {
	if resourceType == "collections" {
		if m, ok := a.colls[uuid]; ok {
			output.(*arvados.Collection).ManifestText = m
			output.(*arvados.Collection).PortableDataHash = uuid
			return nil
		}
	}
	return fmt.Errorf("not found: %s %s", resourceType, uuid)
}
func (a *c17api) Create(string, arvadosclient.Dict, interface{}) error { return errors.New("unused") }
func (a *c17api) Update(string, string, arvadosclient.Dict, interface{}) error {
	return errors.New("unused")
}
func (a *c17api) Call(string, string, string, string, arvadosclient.Dict, interface{}) error {
	return errors.New("unused")
}
func (a *c17api) CallRaw(string, string, string, string, arvadosclient.Dict) (io.ReadCloser, error) {
	return nil, errors.New("unused")
}
func (a *c17api) Discovery(string) (interface{}, error) { return nil, errors.New("unused") }

type nullLogger struct{}

func (nullLogger) Printf(string, ...interface{}) {}

// ---- the model of what the container left behind ---------------------------------------

type tnode struct {
	dir    bool
	link   string // symlink target (container path or relative)
	data   []byte
	kids   map[string]*tnode
	fifo   bool
}

type collModel struct {
	files map[string][]byte // path within the collection
}

type c17world struct {
	root     *tnode // the output directory
	mounts   map[string]*collModel // container path -> read-only collection (with mount Path applied later)
	mpath    map[string]string     // container path -> Mount.Path
	secrets  map[string]bool
	ctrOut   string
}

type expTree struct {
	files map[string][]byte
	dirs  map[string]bool
	err   string
}

func (x *expTree) addDirs(p string) {
	for p != "" {
		x.dirs[p] = true
		if i := strings.LastIndex(p, "/"); i >= 0 {
			p = p[:i]
		} else {
			p = ""
		}
	}
}

// lookup resolves a container path inside the output directory lexically (no link following).
func (cw *c17world) lookup(ctrPath string) *tnode {
	rel := strings.TrimPrefix(ctrPath, cw.ctrOut)
	n := cw.root
	for _, c := range strings.Split(strings.Trim(rel, "/"), "/") {
		if c == "" {
			continue
		}
		if n == nil || !n.dir {
			return nil
		}
		n = n.kids[c]
	}
	return n
}

func under(p, root string) bool { return p == root || strings.HasPrefix(p, root+"/") }

// expect computes, independently of the copier, what the saved collection must contain:
// the documented link rules are applied to the MODEL of the output directory.
func (cw *c17world) expect(x *expTree, dest, ctrPath string, depth int, includeMounts bool) {
	if x.err != "" {
		return
	}
	if depth > 40 {
		x.err = "symlink cycle"
		return
	}
	for s := range cw.secrets {
		if under(ctrPath, s) {
			return // secrets and links to secrets are silently omitted
		}
	}
	// innermost mount
	mroot := ""
	for m := range cw.mounts {
		if under(ctrPath, m) && len(m) > len(mroot) {
			mroot = m
		}
	}
	if under(ctrPath, cw.ctrOut) && len(cw.ctrOut) > len(mroot) {
		mroot = cw.ctrOut
	}
	if mroot == "" {
		x.err = "link leads outside every mount: " + ctrPath
		return
	}
	if mroot != cw.ctrOut {
		cw.expectCollection(x, dest, mroot, strings.TrimPrefix(ctrPath, mroot))
		if includeMounts {
			cw.expectMountsBelow(x, dest, ctrPath)
		}
		return
	}
	if includeMounts {
		cw.expectMountsBelow(x, dest, ctrPath)
	}
	n := cw.lookup(ctrPath)
	if n == nil {
		x.err = "missing path " + ctrPath
		return
	}
	switch {
	case n.link != "":
		target := n.link
		if !strings.HasPrefix(target, "/") {
			target = filepath.Join(filepath.Dir(ctrPath), target)
		}
		cw.expect(x, dest, target, depth+1, true)
	case n.fifo:
		x.err = "special file " + ctrPath
	case n.dir:
		if dest != "" {
			x.addDirs(strings.TrimPrefix(dest, "/"))
		}
		names := make([]string, 0, len(n.kids))
		for name := range n.kids {
			names = append(names, name)
		}
		sort.Strings(names)
		for _, name := range names {
			child := ctrPath + "/" + name
			if cw.secrets[child] {
				continue
			}
			if _, isMount := cw.mounts[child]; isMount {
				continue // content comes from the mount, a stray host entry is ignored
			}
			cw.expect(x, dest+"/"+name, child, depth, false)
		}
	default:
		p := strings.TrimPrefix(dest, "/")
		x.files[p] = n.data
		if i := strings.LastIndex(p, "/"); i >= 0 {
			x.addDirs(p[:i])
		}
	}
}

func (cw *c17world) expectMountsBelow(x *expTree, dest, ctrPath string) {
	var ms []string
	for m := range cw.mounts {
		if strings.HasPrefix(m, ctrPath+"/") {
			ms = append(ms, m)
		}
	}
	sort.Strings(ms)
	for _, m := range ms {
		cw.expectCollection(x, dest+m[len(ctrPath):], m, "")
	}
}

func (cw *c17world) expectCollection(x *expTree, dest, mroot, rel string) {
	c := cw.mounts[mroot]
	src := strings.Trim(filepath.Join(cw.mpath[mroot], rel), "/")
	if src == "." {
		src = ""
	}
	d := strings.TrimPrefix(dest, "/")
	if b, ok := c.files[src]; ok && src != "" { // a single file
		x.files[d] = b
		if i := strings.LastIndex(d, "/"); i >= 0 {
			x.addDirs(d[:i])
		}
		return
	}
	for _, p := range sortedFileKeys(c.files) {
		if src != "" && !strings.HasPrefix(p, src+"/") {
			continue
		}
		r := strings.TrimPrefix(strings.TrimPrefix(p, src), "/")
		full := r
		if d != "" {
			full = d + "/" + r
		}
		x.files[full] = c.files[p]
		if i := strings.LastIndex(full, "/"); i >= 0 {
			x.addDirs(full[:i])
		}
	}
}

func sortedFileKeys(m map[string][]byte) []string {
	ks := make([]string, 0, len(m))
	for k := range m {
		ks = append(ks, k)
	}
	sort.Strings(ks)
	return ks
}

func c17data(seed, n int) []byte {
	b := make([]byte, n)
	for i := range b {
		b[i] = byte((seed*29+i*13)%250 + 1)
	}
	return b
}

var c17names = []string{"a", "b b", "c:c", "d\\d", "\xc3\xa9", "\\101x", "f.txt", "g"}

func escName(s string) string {
	var b strings.Builder
	for i := 0; i < len(s); i++ {
		c := s[i]
		if c <= 0x20 || c == '\\' || c == 0x7f || c == ':' {
			b.WriteString(fmt.Sprintf("\\%03o", c))
		} else {
			b.WriteByte(c)
		}
	}
	return b.String()
}

func scenC17(w *vsim.World, spec *vsim.Spec) {
	blk := []int{4, 1, 2, 8, 16, 64}[w.Choose("blocksize", 6)]
	arvados.VerifSetBlockLimits(blk, 1+(3+w.Choose("writers", 4))%4)
	keep := &c17keep{w: w, blocks: map[string][]byte{}, orig: map[string]bool{}, issued: map[string]bool{}}
	keep.failRate = []int{0, 0, 100, 400}[w.Choose("put-fail-rate", 4)]
	w.HoldKinds(map[string]int{"keep-put": []int{0, 300, 800}[w.Choose("hold-puts", 3)]})
	api := &c17api{colls: map[string]string{}}
	base, err := os.MkdirTemp("/dev/shm", "vcp")
	if err != nil {
		base, err = os.MkdirTemp("", "vcp")
		if err != nil {
			w.Infra("%v", err)
			return
		}
	}
	defer os.RemoveAll(base)
	hostOut := filepath.Join(base, "out")
	os.Mkdir(hostOut, 0755)
	cw := &c17world{root: &tnode{dir: true, kids: map[string]*tnode{}}, mounts: map[string]*collModel{}, mpath: map[string]string{}, secrets: map[string]bool{}, ctrOut: "/ctr/outdir"}
	oddNames := w.Chance("odd-names", 500)
	name := func(label string) string {
		if oddNames {
			return c17names[w.Choose(label, len(c17names))]
		}
		return []string{"a", "b", "f.txt", "g"}[w.Choose(label, 4)]
	}
	// ---- read-only collection mounts ---------------------------------------------------
	mounts := map[string]arvados.Mount{cw.ctrOut: {Kind: "tmp"}}
	nmounts := w.Choose("collection-mounts", 3)
	var linkTargets []string
	type pendingMount struct {
		cm  *collModel
		pdh string
	}
	var pend []pendingMount
	for i := 0; i < nmounts; i++ {
		cm := &collModel{files: map[string][]byte{}}
		var txt strings.Builder
		for si, sdir := range []string{"", "sub", "sub/deep"} {
			if si > 0 && !w.Chance(fmt.Sprintf("m%d-stream%d", i, si), 600) {
				continue
			}
			nf := 1 + w.Choose(fmt.Sprintf("m%d-files", i), 3)
			var data []byte
			var toks []string
			for f := 0; f < nf; f++ {
				fn := name(fmt.Sprintf("m%d-name", i))
				p := fn
				if sdir != "" {
					p = sdir + "/" + fn
				}
				if _, dup := cm.files[p]; dup {
					continue
				}
				fd := c17data(100+i*10+si*3+f, w.Choose(fmt.Sprintf("m%d-size", i), 12))
				cm.files[p] = fd
				toks = append(toks, fmt.Sprintf("%d:%d:%s", len(data), len(fd), escName(fn)))
				data = append(data, fd...)
			}
			if len(toks) == 0 {
				continue
			}
			// blocks of drawn sizes
			var locs []string
			for pos := 0; pos < len(data) || len(locs) == 0; {
				n := 1 + w.Choose(fmt.Sprintf("m%d-blk", i), 9)
				if pos+n > len(data) {
					n = len(data) - pos
				}
				b := data[pos : pos+n]
				keep.store(b)
				loc := fmt.Sprintf("%x+%d+A%040x@5f5e0fff", md5.Sum(b), n, len(keep.orig)+1)
				keep.orig[loc] = true
				locs = append(locs, loc)
				pos += n
				if n == 0 {
					break
				}
			}
			sname := "."
			if sdir != "" {
				sname = "./" + sdir
			}
			txt.WriteString(sname + " " + strings.Join(locs, " ") + " " + strings.Join(toks, " ") + "\n")
		}
		pdh := fmt.Sprintf("%x+%d", md5.Sum([]byte(txt.String())), txt.Len())
		api.colls[pdh] = txt.String()
		pend = append(pend, pendingMount{cm, pdh})
	}
	// ---- secret mounts -----------------------------------------------------------------
	secretMounts := map[string]arvados.Mount{}
	if w.Chance("secret-outside", 300) {
		secretMounts["/secret_text"] = arvados.Mount{Kind: "text", Content: "xyzzy"}
		cw.secrets["/secret_text"] = true
		linkTargets = append(linkTargets, "/secret_text")
	}
	// ---- the output directory tree -------------------------------------------------------
	var dirsList []string // container paths of directories
	var filesList []string
	var links []struct{ dir, name string }
	var sibFiles []string // ordinary files whose path merely starts with the path of a mount point
	nentries := 0
	var build func(n *tnode, ctrPath, hostPath string, depth int)
	build = func(n *tnode, ctrPath, hostPath string, depth int) {
		dirsList = append(dirsList, ctrPath)
		cnt := w.Choose("entries", 4)
		for i := 0; i < cnt && nentries < 14; i++ {
			nm := name("entry-name")
			if _, dup := n.kids[nm]; dup || strings.HasPrefix(nm, "mp") {
				continue
			}
			nentries++
			switch k := w.Choose("entry-kind", 6); {
			case k <= 2: // regular file
				size := []int{3, 0, 1, blk - 1, blk, blk + 1, 3*blk + 1}[w.Choose("file-size", 7)]
				if size < 0 {
					size = 0
				}
				d := c17data(nentries, size)
				n.kids[nm] = &tnode{data: d}
				os.WriteFile(filepath.Join(hostPath, nm), d, 0644)
				filesList = append(filesList, ctrPath+"/"+nm)
			case k == 3 && depth < 3: // directory
				c := &tnode{dir: true, kids: map[string]*tnode{}}
				n.kids[nm] = c
				os.Mkdir(filepath.Join(hostPath, nm), 0755)
				build(c, ctrPath+"/"+nm, filepath.Join(hostPath, nm), depth+1)
			case k == 4: // symbolic link (target chosen below)
				n.kids[nm] = &tnode{link: "?"}
				links = append(links, struct{ dir, name string }{ctrPath, nm})
			case k == 5 && w.Chance("secret-inside", 300): // a secret mounted inside the output directory
				n.kids[nm] = &tnode{data: []byte("secret")}
				os.WriteFile(filepath.Join(hostPath, nm), []byte("secret"), 0600)
				secretMounts[ctrPath+"/"+nm] = arvados.Mount{Kind: "text", Content: "secret"}
				cw.secrets[ctrPath+"/"+nm] = true
				w.Probe("secret-inside-output")
				// a neighbour whose name merely starts with the secret's name is an ordinary file
				if sib := nm + ".pub"; n.kids[sib] == nil && w.Chance("secret-sibling", 600) {
					nentries++
					d := c17data(nentries, 5)
					n.kids[sib] = &tnode{data: d}
					os.WriteFile(filepath.Join(hostPath, sib), d, 0644)
					filesList = append(filesList, ctrPath+"/"+sib)
					sibFiles = append(sibFiles, ctrPath+"/"+sib)
				}
			}
		}
	}
	build(cw.root, cw.ctrOut, hostOut, 0)
	// place the collection mounts: beside the output directory, or beneath ANY directory of it
	// (so that a symlink to that directory, or to one above it, has a mount beneath its target)
	for i, pm := range pend {
		cm, pdh := pm.cm, pm.pdh
		mpoint := fmt.Sprintf("/mnt/c%d", i)
		if w.Chance(fmt.Sprintf("m%d-below-output", i), 500) {
			dir := dirsList[w.Choose(fmt.Sprintf("m%d-dir", i), len(dirsList))]
			mpoint = dir + fmt.Sprintf("/mp%d", i)
			// the mount point exists in the host directory as an (empty) directory
			os.MkdirAll(filepath.Join(hostOut, strings.TrimPrefix(mpoint, cw.ctrOut)), 0755)
			cw.lookup(dir).kids[fmt.Sprintf("mp%d", i)] = &tnode{dir: true, kids: map[string]*tnode{}}
			w.Probe("collection-mounted-below-output")
			if dir != cw.ctrOut {
				w.Probe("collection-mounted-in-subdirectory")
			}
			// neighbours whose names merely start with the mount point's name: an ordinary file, or a directory with a file
			if w.Chance(fmt.Sprintf("m%d-sibling", i), 600) {
				dn := cw.lookup(dir)
				hostDir := filepath.Join(hostOut, strings.TrimPrefix(dir, cw.ctrOut))
				nentries++
				d := c17data(nentries, 6)
				if w.Chance(fmt.Sprintf("m%d-sibling-dir", i), 400) {
					sib := fmt.Sprintf("mp%d2", i)
					dn.kids[sib] = &tnode{dir: true, kids: map[string]*tnode{"part": {data: d}}}
					os.Mkdir(filepath.Join(hostDir, sib), 0755)
					os.WriteFile(filepath.Join(hostDir, sib, "part"), d, 0644)
					dirsList = append(dirsList, dir+"/"+sib)
					filesList = append(filesList, dir+"/"+sib+"/part")
					sibFiles = append(sibFiles, dir+"/"+sib+"/part")
				} else {
					sib := fmt.Sprintf("mp%d.txt", i)
					dn.kids[sib] = &tnode{data: d}
					os.WriteFile(filepath.Join(hostDir, sib), d, 0644)
					filesList = append(filesList, dir+"/"+sib)
					sibFiles = append(sibFiles, dir+"/"+sib)
				}
			}
		}
		mp := ""
		if firstUnder(cm.files, "sub/") != "" && w.Chance(fmt.Sprintf("m%d-path-sub", i), 300) {
			mp = "sub"
		}
		mounts[mpoint] = arvados.Mount{Kind: "collection", PortableDataHash: pdh, Path: mp}
		cw.mounts[mpoint], cw.mpath[mpoint] = cm, mp
		// link targets into this mount: the mount point, a file, a directory
		linkTargets = append(linkTargets, mpoint)
		for _, p := range sortedFileKeys(cm.files) {
			if mp == "" || strings.HasPrefix(p, mp+"/") {
				linkTargets = append(linkTargets, mpoint+"/"+strings.TrimPrefix(strings.TrimPrefix(p, mp), "/"))
				break
			}
		}
		if mp == "" && firstUnder(cm.files, "sub/") != "" {
			linkTargets = append(linkTargets, mpoint+"/sub")
		}
	}
	bad := 0
	for li, l := range links {
		n := cw.lookup(l.dir).kids[l.name]
		var target string
		switch k := w.Choose("link-kind", 8); {
		case k <= 1 && len(filesList) > 0:
			target = filesList[w.Choose("link-file", len(filesList))]
		case k == 2 && len(dirsList) > 1:
			target = dirsList[1+w.Choose("link-dir", len(dirsList)-1)]
			if under(l.dir, target) {
				bad++ // a link to an ancestor: a cycle
				w.Fault("link-cycle")
			}
		case k == 3 && len(linkTargets) > 0:
			target = linkTargets[w.Choose("link-mount", len(linkTargets))]
			w.Probe("link-into-mount")
		case k == 4 && li > 0: // chain: a link to an earlier link
			p := links[w.Choose("link-chain", li)]
			target = p.dir + "/" + p.name
			w.Probe("link-chain")
		case k == 5:
			target = l.dir + "/" + l.name // self loop
			bad++
			w.Fault("link-cycle")
		case k == 6 && len(sibFiles) > 0 && w.Chance("link-to-mount-sibling", 700):
			target = sibFiles[w.Choose("link-sibling", len(sibFiles))]
			w.Probe("link-to-neighbour-of-mount")
		case k == 6:
			target = "/etc/not-mounted/x"
			if nmounts > 0 && w.Chance("escape-near-mount", 300) {
				target = "/mnt/c0x/y" // not beneath /mnt/c0: only the first characters agree
			} else if cw.secrets["/secret_text"] && w.Chance("escape-near-secret", 300) {
				target = "/secret_textual"
			}
			bad++
			w.Fault("link-escapes-mounts")
		default:
			if len(sibFiles) > 0 {
				target = sibFiles[w.Choose("link-sibling", len(sibFiles))]
				w.Probe("link-to-neighbour-of-mount")
			} else if len(filesList) == 0 {
				target = "/etc/not-mounted/y"
				bad++
				w.Fault("link-escapes-mounts")
			} else {
				target = filesList[0]
			}
		}
		// relative spelling when the target is inside the output directory
		if under(target, cw.ctrOut) && w.Chance("link-relative", 500) {
			if r, err := filepath.Rel(l.dir, target); err == nil {
				target = r
			}
		}
		n.link = target
		hostLink := filepath.Join(hostOut, strings.TrimPrefix(l.dir, cw.ctrOut), l.name)
		if err := os.Symlink(target, hostLink); err != nil {
			w.Infra("symlink: %v", err)
			return
		}
	}
	exp := &expTree{files: map[string][]byte{}, dirs: map[string]bool{"": true}}
	cw.expect(exp, "", cw.ctrOut, 0, true)
	w.Logf("tree: %d entries, %d links, %d mounts, %d secrets, expected error=%q", nentries, len(links), nmounts, len(secretMounts), exp.err)

	cp := &copier{client: nil, arvClient: api, keepClient: keep, hostOutputDir: hostOut, ctrOutputDir: cw.ctrOut,
		mounts: mounts, secretMounts: secretMounts, logger: nullLogger{}}
	var txt string
	var cerr error
	done := false
	w.Spawn("copier", func() {
		txt, cerr = cp.Copy()
		done = true
	})
	w.Run(nil)
	if w.Failed() || w.Truncated() {
		return
	}
	if !done {
		w.Violation("c17/copy-never-returned", "%s", strings.Join(w.Blocked(), "; "))
		return
	}
	if exp.err != "" {
		w.Probe("expected-error")
		if cerr == nil {
			w.Violation("c17/bad-link-silently-accepted", "the output tree has %s, yet Copy succeeded (manifest %q)", exp.err, txt)
		}
		return
	}
	if cerr != nil {
		if keep.nfailed == 0 {
			w.Violation("c17/copy-failed", "Copy failed on a well-formed output tree with no Keep fault: %v", cerr)
		} else {
			w.Probe("copy-failed-under-keep-faults")
		}
		return
	}
	w.Probe("copy-ok")
	ref, err := refParse(txt, keep.blockOf)
	if err != nil {
		w.Violation("c17/manifest-invalid", "%v\n%s", err, txt)
		return
	}
	// compare: same paths, same bytes; an empty directory may be carried by a zero-length .keep file
	for _, p := range sortedFileKeys(ref.files) {
		want, ok := exp.files[p]
		if !ok {
			if strings.HasSuffix(p, "/.keep") && len(ref.files[p]) == 0 && exp.dirs[strings.TrimSuffix(p, "/.keep")] {
				continue
			}
			for s := range cw.secrets {
				_ = s
			}
			w.Violation("c17/unexpected-path-in-output", "output contains %q (%d bytes) which the output directory does not produce\n%s", p, len(ref.files[p]), txt)
			return
		}
		if !bytes.Equal(want, ref.files[p]) {
			w.Violation("c17/wrong-bytes", "output file %q has %d bytes %q, the output directory has %d bytes %q", p, len(ref.files[p]), trunc17(ref.files[p]), len(want), trunc17(want))
			return
		}
	}
	for _, p := range sortedFileKeys(exp.files) {
		if _, ok := ref.files[p]; !ok {
			w.Violation("c17/path-missing-from-output", "the output directory has %q (%d bytes) but the saved collection does not\n%s", p, len(exp.files[p]), txt)
			return
		}
	}
	for d := range exp.dirs {
		if !ref.dirs[d] {
			w.Violation("c17/directory-missing-from-output", "directory %q is missing from the saved collection\n%s", d, txt)
			return
		}
	}
	for d := range ref.dirs {
		if !exp.dirs[d] {
			w.Violation("c17/unexpected-directory-in-output", "saved collection has directory %q which the output directory does not produce\n%s", d, txt)
			return
		}
	}
	// mounted content is included by reference: every locator is an existing one or was written now,
	// and no more bytes were written to Keep than the regular files copied from the host
	copied := 0
	for p, b := range exp.files {
		_ = p
		copied += len(b)
	}
	for _, l := range ref.locs {
		if !keep.orig[l] && !keep.issued[l] && !strings.HasPrefix(l, "d41d8cd98f00b204e9800998ecf8427e+0") {
			w.Violation("c17/locator-provenance", "locator %s is neither from a mounted collection nor written by this copy", l)
			return
		}
	}
	mountedBytes := 0
	for m, c := range cw.mounts {
		_ = m
		for _, b := range c.files {
			mountedBytes += len(b)
		}
	}
	if keep.nfailed == 0 && mountedBytes > 0 && keep.putBytes > copied-mountedBytesIn(exp, cw) {
		w.Violation("c17/mounted-content-rewritten", "%d bytes were written to Keep, but only %d bytes of regular host files had to be copied (mounted-collection content must be referenced, not re-written)", keep.putBytes, copied-mountedBytesIn(exp, cw))
		return
	}
	w.SetEndState(fmt.Sprintf("%d files %d dirs", len(exp.files), len(exp.dirs)))
}

// mountedBytesIn counts the bytes of expected files whose content comes from mounted collections
// (identified by content identity with some mounted file: data generators use disjoint seeds).
func mountedBytesIn(exp *expTree, cw *c17world) int {
	n := 0
	for _, b := range exp.files {
		for _, c := range cw.mounts {
			hit := false
			for _, mb := range c.files {
				if len(mb) > 0 && bytes.Equal(mb, b) {
					hit = true
				}
			}
			if hit {
				n += len(b)
				break
			}
		}
	}
	return n
}

func firstUnder(m map[string][]byte, prefix string) string {
	for _, k := range sortedFileKeys(m) {
		if strings.HasPrefix(k, prefix) {
			return k
		}
	}
	return ""
}

func trunc17(b []byte) []byte {
	if len(b) > 40 {
		return b[:40]
	}
	return b
}
