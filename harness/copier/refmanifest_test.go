//go:build go1.26

package crunchrun

import (
	"fmt"
	"regexp"
	"strconv"
	"strings"
)

// Reference manifest reader written from doc/architecture/manifest-format.html.textile.liquid
// (independent of both Go codecs). It is part of the ORACLE.
//
//	manifest ::= stream* ; stream ::= stream-name (" " locator)+ (" " file-segment)+ "\n"
//
// Names use \ooo octal escapes (the document names \040; the codecs escape every byte that
// would otherwise break tokenisation the same way). An empty directory is expressed by the
// zero-length file token 0:0:. (written \056) in the stream of that directory.

var refLocatorRe = regexp.MustCompile(`^([0-9a-f]{32})\+([0-9]+)(\+[A-Z][-A-Za-z0-9@_]*)*$`)

type refTree struct {
	files map[string][]byte // path relative to root, no leading "./"
	dirs  map[string]bool   // every directory that exists (including parents of files), "" = root
	locs  []string
}

func refUnescape(s string) (string, error) {
	var b strings.Builder
	for i := 0; i < len(s); i++ {
		if s[i] != '\\' {
			b.WriteByte(s[i])
			continue
		}
		if i+1 < len(s) && s[i+1] == '\\' {
			b.WriteByte('\\')
			i++
			continue
		}
		if i+3 < len(s) {
			if v, err := strconv.ParseUint(s[i+1:i+4], 8, 8); err == nil {
				b.WriteByte(byte(v))
				i += 3
				continue
			}
		}
		return "", fmt.Errorf("bad escape in %q", s)
	}
	return b.String(), nil
}

func refAddDirs(t *refTree, dir string) {
	for dir != "" {
		t.dirs[dir] = true
		if i := strings.LastIndex(dir, "/"); i >= 0 {
			dir = dir[:i]
		} else {
			dir = ""
		}
	}
	t.dirs[""] = true
}

// refParse validates txt against the grammar and interprets it, fetching block
// contents through get.
func refParse(txt string, get func(locator string) ([]byte, bool)) (*refTree, error) {
	t := &refTree{files: map[string][]byte{}, dirs: map[string]bool{"": true}}
	if txt == "" {
		return t, nil
	}
	if !strings.HasSuffix(txt, "\n") {
		return nil, fmt.Errorf("manifest does not end with newline")
	}
	for ln, stream := range strings.Split(strings.TrimSuffix(txt, "\n"), "\n") {
		for i := 0; i < len(stream); i++ {
			if c := stream[i]; c < 0x20 || c == 0x7f {
				return nil, fmt.Errorf("line %d: control/whitespace byte 0x%02x", ln+1, c)
			}
		}
		toks := strings.Split(stream, " ")
		if len(toks) < 3 {
			return nil, fmt.Errorf("line %d: too few tokens", ln+1)
		}
		sname, err := refUnescape(toks[0])
		if err != nil {
			return nil, fmt.Errorf("line %d: %v", ln+1, err)
		}
		if sname != "." && !strings.HasPrefix(sname, "./") {
			return nil, fmt.Errorf("line %d: stream name %q does not start with .", ln+1, sname)
		}
		for _, c := range strings.Split(sname, "/")[1:] {
			if c == "" || c == "." || c == ".." {
				return nil, fmt.Errorf("line %d: bad stream name %q", ln+1, sname)
			}
		}
		sdir := strings.TrimPrefix(strings.TrimPrefix(sname, "."), "/")
		var data []byte
		i := 1
		for ; i < len(toks) && refLocatorRe.MatchString(toks[i]); i++ {
			m := refLocatorRe.FindStringSubmatch(toks[i])
			size, _ := strconv.Atoi(m[2])
			b, ok := get(toks[i])
			if !ok {
				return nil, fmt.Errorf("line %d: block %s is not in Keep", ln+1, toks[i])
			}
			if len(b) != size {
				return nil, fmt.Errorf("line %d: locator %s claims %d bytes, Keep has %d", ln+1, toks[i], size, len(b))
			}
			data = append(data, b...)
			t.locs = append(t.locs, toks[i])
		}
		if i == 1 {
			return nil, fmt.Errorf("line %d: no locator", ln+1)
		}
		if i == len(toks) {
			return nil, fmt.Errorf("line %d: no file segment", ln+1)
		}
		for ; i < len(toks); i++ {
			parts := strings.SplitN(toks[i], ":", 3)
			if len(parts) != 3 {
				return nil, fmt.Errorf("line %d: bad file segment %q", ln+1, toks[i])
			}
			pos, e1 := strconv.ParseInt(parts[0], 10, 64)
			size, e2 := strconv.ParseInt(parts[1], 10, 64)
			if e1 != nil || e2 != nil || pos < 0 || size < 0 {
				return nil, fmt.Errorf("line %d: bad file segment %q", ln+1, toks[i])
			}
			if pos+size > int64(len(data)) {
				return nil, fmt.Errorf("line %d: segment %q exceeds the %d-byte stream", ln+1, toks[i], len(data))
			}
			fname, err := refUnescape(parts[2])
			if err != nil {
				return nil, fmt.Errorf("line %d: %v", ln+1, err)
			}
			if fname == "." && size == 0 {
				refAddDirs(t, sdir) // empty-directory marker
				continue
			}
			for _, c := range strings.Split(fname, "/") {
				if c == "" || c == "." || c == ".." {
					return nil, fmt.Errorf("line %d: bad file name %q", ln+1, fname)
				}
			}
			full := fname
			if sdir != "" {
				full = sdir + "/" + fname
			}
			if j := strings.LastIndex(full, "/"); j >= 0 {
				refAddDirs(t, full[:j])
			}
			t.files[full] = append(t.files[full], data[pos:pos+size]...)
		}
	}
	for f := range t.files {
		if t.dirs[f] {
			return nil, fmt.Errorf("path %q is both a file and a directory", f)
		}
	}
	return t, nil
}
