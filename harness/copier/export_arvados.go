//go:build verif

package arvados

// VerifSetBlockLimits lets harnesses in other packages shrink the collection filesystem's
// block size limit and writer throttle (package-level variables, unexported).
func VerifSetBlockLimits(maxBlock, writers int) {
	maxBlockSize = maxBlock
	concurrentWriters = writers
}
