//go:build go1.26

//go:debug asynctimerchan=0

package main

import (
	"testing"

	"verif.local/vsim"
)

func TestVerif(t *testing.T) {
	vsim.Main(t, map[string]vsim.Scenario{
		"C05":  scenC05,
		"C06":  scenC06,
		"C12B": scenC12B,
	})
}
