//go:build go1.26

package main

// C12B: the keep-balance clause of C12. With one empty writable mount per server, a block
// held by a few servers and k replicas wanted, the servers keep-balance asks to pull the
// block must be exactly the first k servers of the reference rendezvous order that do not
// hold it yet.

import (
	"fmt"
	"sort"
	"strings"
	"time"

	"verif.local/vsim"
)

// referenceOrder is written from doc/architecture/keep-clients.html.textile.liquid and the
// property text: weight = MD5(hex hash ++ last 15 characters of a 27-character service
// uuid) (the whole uuid for other lengths), services sorted by descending weight.
func referenceOrder(hash string, uuids []string) []string {
	type wu struct{ w, u string }
	var l []wu
	for _, u := range uuids {
		suffix := u
		if len(u) == 27 {
			suffix = u[len(u)-15:]
		}
		l = append(l, wu{md5hex(hash + suffix), u})
	}
	sort.Slice(l, func(i, j int) bool {
		if l[i].w != l[j].w {
			return l[i].w > l[j].w
		}
		return l[i].u < l[j].u
	})
	r := make([]string, len(l))
	for i, x := range l {
		r[i] = x.u
	}
	return r
}

func scenC12B(w *vsim.World, spec *vsim.Spec) {
	c := newSimCluster(w)
	c.api.ignoreSelect = false
	rnd := w.NewRand("ids")
	t0 := time.Now()
	c.ttl = 3600
	c.defRepl = 1 + w.Choose("default-replication", 2)
	maxSrv := 6
	if w.Chance("many-services", 300) {
		maxSrv = 32
	}
	nSrv := 1 + w.Choose("services", maxSrv)
	style := w.Choose("uuid style", 3) // 0 all 27-char, 1 mixed, 2 none 27-char
	seen := map[string]bool{}
	for i := 0; i < nSrv; i++ {
		var uuid string
		for uuid == "" || seen[uuid] {
			std := style == 0 || (style == 1 && rnd.Intn(2) == 0)
			if std {
				uuid = "zzzzz-bi6l4-" + randID(rnd, 15)
			} else {
				n := []int{1, 5, 15, 20, 26, 28, 40}[rnd.Intn(7)]
				uuid = randID(rnd, n)
				w.Probe("uuid-not-27-chars")
			}
		}
		seen[uuid] = true
		s := &simSrv{idx: i, uuid: uuid, host: fmt.Sprintf("keep%d.sim", i), port: 25107, typ: "disk"}
		c.svcs = append(c.svcs, s)
		c.byHost[s.hostport()] = s
		dev := &simDevice{key: fmt.Sprintf("dev%02d", i), repl: 1, blocks: map[string]*simReplica{}}
		if w.Chance("device id", 500) {
			dev.deviceID = "drive-" + randID(rnd, 8)
		}
		m := &simMount{uuid: "zzzzz-nyw5e-" + randID(rnd, 15), dev: dev, srv: s}
		dev.views = []*simMount{m}
		s.mounts = []*simMount{m}
		c.devs = append(c.devs, dev)
	}
	var uuids []string
	byUUID := map[string]*simSrv{}
	for _, s := range c.svcs {
		uuids = append(uuids, s.uuid)
		byUUID[s.uuid] = s
	}
	nb := 1 + w.Choose("blocks", 6)
	wantK := map[string]int{}
	holders := map[string]map[string]bool{} // hash -> service uuid
	for i := 0; i < nb; i++ {
		b := &simBlock{hash: md5hex(fmt.Sprintf("c12 block %d %d", i, rnd.Uint64())), size: 1 + rnd.Intn(100)}
		c.blocks = append(c.blocks, b)
		holders[b.hash] = map[string]bool{}
		nh := 1 + w.Choose(fmt.Sprintf("block%d holders", i), min(3, nSrv))
		for len(holders[b.hash]) < nh {
			s := c.svcs[w.Choose(fmt.Sprintf("block%d holder", i), nSrv)]
			if holders[b.hash][s.uuid] {
				s = c.svcs[(s.idx+1)%nSrv]
			}
			if holders[b.hash][s.uuid] {
				break
			}
			holders[b.hash][s.uuid] = true
			s.mounts[0].dev.blocks[b.hash] = &simReplica{size: b.size, mtime: t0.UnixNano() - int64(2+rnd.Intn(1000))*int64(time.Hour)}
		}
		k := 1 + w.Choose(fmt.Sprintf("block%d wanted", i), min(4, nSrv))
		wantK[b.hash] = k
		col := &simColl{uuid: "zzzzz-4zz18-" + randID(rnd, 15), modifiedAt: t0.Add(-time.Hour).UnixNano() + int64(i)*1000, blocks: []string{b.hash}, replDes: &k}
		col.manifest = manifestFor([]*simBlock{b})
		col.pdh = pdhOf(col.manifest)
		c.api.colls = append(c.api.colls, col)
	}
	for _, s := range c.svcs {
		w.Logf("layout: srv %s uuid %q", s.host, s.uuid)
	}
	res := c.sweep(spec, "c12b")
	if w.Failed() || w.Truncated() {
		return
	}
	if !res.returned {
		w.Infra("Balancer.Run did not return: %s", strings.Join(w.Blocked(), "; "))
		return
	}
	if res.err != nil {
		w.Infra("fault-free sweep failed: %v", res.err)
		return
	}
	// pull targets per block, from the last pull list of each server
	last := map[string]*recvList{}
	for _, rl := range c.recv {
		if rl.kind == "pull" {
			last[rl.srv.uuid] = rl
		}
	}
	targets := map[string]map[string]bool{}
	for _, u := range vsim.SortedKeys(last) {
		for _, e := range last[u].pull {
			if targets[e.Locator] == nil {
				targets[e.Locator] = map[string]bool{}
			}
			targets[e.Locator][u] = true
		}
	}
	for _, b := range c.blocks {
		order := referenceOrder(b.hash, uuids)
		k := wantK[b.hash]
		var expect []string
		for _, u := range order[:k] {
			if !holders[b.hash][u] {
				expect = append(expect, u)
			}
		}
		sort.Strings(expect)
		got := vsim.SortedKeys(targets[b.hash])
		w.Logf("block %s wanted %d holders %v reference order %v pulls to %v", b.hash[:6], k, vsim.SortedKeys(holders[b.hash]), order, got)
		if len(expect) > 0 {
			w.Probe("pull-expected")
		}
		if k == 1 && len(expect) == 1 {
			w.Probe("single-replica-to-first-server")
		}
		if strings.Join(got, ",") != strings.Join(expect, ",") {
			w.Violation("c12/balancer-pull-targets-not-reference-prefix", "block %s: %d replicas wanted, held by %v; reference rendezvous order is %v so the pulls must go to %v, but keep-balance asked %v", b.hash, k, vsim.SortedKeys(holders[b.hash]), order, expect, got)
		}
	}
	w.SetEndState(fmt.Sprintf("n=%d blocks=%d", nSrv, nb))
}
