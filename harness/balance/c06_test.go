//go:build go1.26

package main

// C06: keep-balance acts only on a complete view of collections and block indexes.
//   part a: the real EachCollection pages through a collections table that is being
//           modified between page requests;
//   part b: a well-formed index response cut at a drawn byte, served to both index readers;
//   part c: one failure injected at the k-th request of a whole sweep.

import (
	"context"
	"encoding/json"
	"fmt"
	"io"
	"net/http"
	"sort"
	"strings"
	"time"

	"git.arvados.org/arvados.git/sdk/go/arvados"
	"git.arvados.org/arvados.git/sdk/go/arvadosclient"
	"git.arvados.org/arvados.git/sdk/go/keepclient"
	"verif.local/vsim"
)

func scenC06(w *vsim.World, spec *vsim.Spec) {
	// the goroutines of GetCurrentState are simulator tasks (rule R2); in two runs of three they may also
	// lose the processor before any statement of that function (rule R9)
	w.PreemptOn = w.Choose("statement-preemption", 3) != 0
	if w.PreemptOn {
		// slow threads: a goroutine of GetCurrentState may also be descheduled for 1 ms .. 5 s there
		w.StallPM, w.StallBudget = []int{0, 30, 150}[w.Choose("stall-rate", 3)], 2
	}
	switch w.Choose("c06 part", 3) {
	case 0:
		scenC06Paging(w, spec)
	case 1:
		scenC06Truncation(w, spec)
	default:
		scenC06Abort(w, spec)
	}
}

// ---- part a: paging under concurrent mutations -----------------------------------------------

func scenC06Paging(w *vsim.World, spec *vsim.Spec) {
	c := newSimCluster(w)
	api := c.api
	rnd := w.NewRand("ids")
	t0 := time.Now()
	var n int
	switch w.Choose("population", 4) {
	case 0:
		n = w.Choose("population small", 9) // 0..8
	case 1:
		n = w.Choose("population medium", 31)
	case 2:
		n = 20 + w.Choose("population large", 181) // ..200
	default:
		n = w.Choose("population tiny", 4)
	}
	// timestamps: d distinct values; d=1 is one big tie, d>=n mostly distinct
	d := 1
	if n > 0 {
		d = 1 + w.Choose("distinct timestamps", n)
		if w.Chance("few timestamps", 400) {
			d = 1 + w.Choose("few distinct timestamps", min(n, 3))
		}
	}
	step := []int64{1000, int64(time.Second)}[w.Choose("timestamp step", 2)]
	base := t0.Add(-24 * time.Hour).UnixNano()
	newColl := func(ts int64) *simColl {
		col := &simColl{uuid: "zzzzz-4zz18-" + randID(rnd, 15), modifiedAt: ts}
		col.manifest = ". d41d8cd98f00b204e9800998ecf8427e+0 0:0:f\n"
		col.pdh = pdhOf(col.manifest)
		return col
	}
	tsRnd := w.NewRand("timestamps")
	for i := 0; i < n; i++ {
		var k int
		if n <= 12 {
			k = w.Choose(fmt.Sprintf("coll%d timestamp", i), d)
		} else {
			k = tsRnd.Intn(d)
		}
		col := newColl(base + int64(k)*step)
		col.trashed = tsRnd.Intn(10) == 0
		col.oldVersion = tsRnd.Intn(10) == 0
		api.colls = append(api.colls, col)
	}
	initial := map[string]bool{}
	for _, col := range api.colls {
		initial[col.uuid] = true
	}
	deleted := map[string]bool{}
	pageSize := 0
	switch w.Choose("page size kind", 4) {
	case 0:
		pageSize = 1 + w.Choose("page size", n+2)
	case 1:
		pageSize = 1 + w.Choose("page size small", 3)
	case 2:
		pageSize = 0 // "as many as the server allows"
	default:
		pageSize = 1 + w.Choose("page size", n+2)
	}
	api.maxPage = 0
	if pageSize == 0 || w.Chance("server caps page", 300) {
		api.maxPage = 1 + w.Choose("server max page", n+2)
	}
	api.shortPages = w.Chance("api short pages", 250)
	mutRate := []int{0, 100, 300, 600}[w.Choose("mutation rate", 4)]
	w.Logf("paging: n=%d distinct=%d step=%d pageSize=%d serverMax=%d short=%v mutRate=%d", n, d, step, pageSize, api.maxPage, api.shortPages, mutRate)

	var seenOrder []string // owned by the client task until it has returned
	started := false
	api.beforeColl = func() {
		if !started {
			started = true // population is fixed until the first request has been made
			return
		}
		if mutRate == 0 {
			return
		}
		now := time.Now().UnixNano() // fresh: later than every timestamp handed out before
		for k := 0; k < 8 && w.Chance("mutate", mutRate); k++ {
			switch op := w.Choose("mutation", 3); {
			case op == 0 && len(api.colls) > 0: // modify
				col := api.colls[w.Choose("modify which", len(api.colls))]
				col.modifiedAt = now
				w.Logf("mutation: modify %s -> now", tail(col.uuid, 6))
				w.Fault("collection-modified-during-scan")
			case op == 1 || len(api.colls) == 0: // add
				col := newColl(now)
				api.colls = append(api.colls, col)
				w.Logf("mutation: add %s at now", tail(col.uuid, 6))
				w.Fault("collection-added-during-scan")
			default: // delete
				i := w.Choose("delete which", len(api.colls))
				col := api.colls[i]
				api.colls = append(api.colls[:i], api.colls[i+1:]...)
				deleted[col.uuid] = true
				w.Logf("mutation: delete %s", tail(col.uuid, 6))
				w.Fault("collection-deleted-during-scan")
			}
		}
	}
	prevSent := map[string]bool{}
	c.intercept = func(kind string, r *vsim.NetRequest, rep *vsim.NetReply) *vsim.NetReply {
		if kind == "collections" && len(api.lastPage) > 0 {
			all := true
			for _, u := range api.lastPage {
				if !prevSent[u] {
					all = false
				}
				prevSent[u] = true
			}
			if all {
				w.Probe("full-page-of-already-sent-items")
			}
			api.lastPage = nil
		}
		return rep
	}
	client := &arvados.Client{APIHost: api.host, AuthToken: "xyzzy", Client: &http.Client{Transport: canonTransport{c.net}}, Timeout: 5 * time.Minute}
	var err error
	returned := false
	w.Spawn("scanner", func() {
		err = EachCollection(context.Background(), client, pageSize, func(col arvados.Collection) error {
			seenOrder = append(seenOrder, col.UUID)
			return nil
		}, nil)
		returned = true
	})
	w.Run(nil)
	if w.Failed() || w.Truncated() {
		return
	}
	if !returned {
		w.Infra("EachCollection did not return: %s", strings.Join(w.Blocked(), "; "))
		return
	}
	seen := map[string]bool{}
	for _, u := range seenOrder {
		seen[u] = true
	}
	w.Logf("scan returned err=%v callbacks=%d distinct=%d requests=%d", err != nil, len(seenOrder), len(seen), c.reqN)
	if len(seenOrder) > len(seen) {
		w.Probe("collection-delivered-twice")
	}
	if err != nil {
		w.Probe("scan-failed")
		if mutRate == 0 {
			// failing is allowed by the property; on a static table it is merely counted so
			// that a scan that can never succeed shows up in the probe counters
			w.Probe("scan-failed-on-static-table")
		}
		w.SetEndState("scan-error")
		return
	}
	w.Probe("scan-ok")
	var missed []string
	for _, u := range vsim.SortedKeys(initial) {
		if !deleted[u] && !seen[u] {
			missed = append(missed, u)
		}
	}
	if len(missed) > 0 {
		var desc []string
		for _, u := range missed {
			for _, col := range api.colls {
				if col.uuid == u {
					desc = append(desc, fmt.Sprintf("%s(modified_at=%s trashed=%v old=%v)", u, time.Unix(0, col.modifiedAt).UTC().Format(apiTimeFmt), col.trashed, col.oldVersion))
				}
			}
		}
		w.Violation("c06/collection-missed", "EachCollection returned nil but never passed %d collection(s) that existed during the whole scan to the callback: %s (page size %d, server max %d, %d collections, %d distinct timestamps)", len(missed), strings.Join(desc, " "), pageSize, api.maxPage, n, d)
	}
	w.SetEndState(fmt.Sprintf("scan-ok n=%d pages=%d", n, api.pagesServed))
}

// ---- part b: truncated index responses -----------------------------------------------------

// cutReply turns a complete body into a response cut after `cut` bytes, with one of the
// framings a client can meet on a real connection.
func cutReply(w *vsim.World, full []byte, cut int, framing int) *vsim.NetReply {
	rep := &vsim.NetReply{Status: 200, Body: append([]byte(nil), full[:cut]...), Header: http.Header{}}
	switch framing {
	case 0: // Content-Length announces the full body, connection drops early
		rep.SetCL, rep.ContentLength, rep.BodyErr = true, int64(len(full)), io.ErrUnexpectedEOF
	case 1: // no length, connection closed cleanly by an intermediary: plain EOF
		rep.NoLength = true
	case 2: // chunked, cut inside the chunk stream
		rep.NoLength, rep.BodyErr = true, io.ErrUnexpectedEOF
	case 3: // an intermediary re-framed the short body: consistent length, plain EOF
		rep.SetCL, rep.ContentLength = true, int64(cut)
	}
	return rep
}

var framingName = []string{"content-length-full+unexpected-eof", "no-length+eof", "chunked+unexpected-eof", "content-length-short+eof"}

func scenC06Truncation(w *vsim.World, spec *vsim.Spec) {
	rnd := w.NewRand("index")
	m := w.Choose("index entries", 5)
	if w.Chance("long index", 100) {
		m = 5 + w.Choose("index entries long", 60)
	}
	t0 := time.Now().UnixNano()
	var sb strings.Builder
	type ent struct {
		sd string
		mt int64
	}
	var ents []ent
	for i := 0; i < m; i++ {
		e := ent{fmt.Sprintf("%s+%d", md5hex(fmt.Sprint("idx", i, rnd.Uint64())), rnd.Intn(70000000)), t0 - int64(rnd.Intn(1e9))*int64(1+rnd.Intn(1e6))}
		ents = append(ents, e)
		fmt.Fprintf(&sb, "%s %d\n", e.sd, e.mt)
	}
	sb.WriteString("\n") // the blank terminator line appears only here
	full := []byte(sb.String())
	control := w.Chance("complete response (control)", 80)
	cut := len(full)
	if !control {
		switch w.Choose("cut where", 4) {
		case 0, 1:
			cut = w.Choose("cut at byte", len(full))
		case 2: // right after a complete line (the terminator is still missing)
			var ends []int
			for i, ch := range full[:len(full)-1] {
				if ch == '\n' {
					ends = append(ends, i+1)
				}
			}
			if len(ends) > 0 {
				cut = ends[w.Choose("cut after line", len(ends))]
			} else {
				cut = 0
			}
		default: // everything but the last byte
			cut = len(full) - 1
		}
	}
	framing := w.Choose("framing", 4)
	if control {
		framing = 1
	}
	if !control {
		w.Fault("index-truncated-" + framingName[framing])
		if cut == 0 {
			w.Probe("index-cut-at-0")
		}
		if cut > 0 && full[cut-1] == '\n' {
			w.Probe("index-cut-at-line-end")
		}
		if cut == len(full)-1 {
			w.Probe("index-cut-before-terminator")
		}
	}
	w.Logf("index: %d entries %d bytes, cut=%d framing=%s control=%v", m, len(full), cut, framingName[framing], control)
	svcUUID := "zzzzz-bi6l4-" + randID(rnd, 15)
	mountUUID := "zzzzz-nyw5e-" + randID(rnd, 15)
	net := vsim.NewNet(w, func(r *vsim.NetRequest) *vsim.NetReply {
		w.Logf("req %s %s %s", r.Method, r.Host, r.Path)
		if r.Host != "keep0.sim:25107" || r.Method != "GET" || (r.Path != "/index" && r.Path != "/mounts/"+mountUUID+"/blocks") {
			return &vsim.NetReply{Status: 404, Body: []byte("not found\n")}
		}
		return cutReply(w, full, cut, framing)
	})
	client := &arvados.Client{APIHost: "api.sim", AuthToken: "xyzzy", Client: &http.Client{Transport: net}, Timeout: 5 * time.Minute}
	ks := &arvados.KeepService{UUID: svcUUID, ServiceHost: "keep0.sim", ServicePort: 25107, ServiceType: "disk"}
	kc := &keepclient.KeepClient{Arvados: &arvadosclient.ArvadosClient{ApiToken: "xyzzy"}, HTTPClient: net, Want_replicas: 1}
	lj, _ := json.Marshal(map[string]any{"items": []any{map[string]any{"uuid": svcUUID, "service_host": "keep0.sim", "service_port": 25107, "service_type": "disk"}}})
	if err := kc.LoadKeepServicesFromJSON(string(lj)); err != nil {
		w.Infra("LoadKeepServicesFromJSON: %v", err)
		return
	}
	var idx []arvados.KeepServiceIndexEntry
	var err1, err2 error
	var rd io.Reader
	var got2 []byte
	done := false
	w.Spawn("readers", func() {
		idx, err1 = ks.IndexMount(context.Background(), client, mountUUID, "")
		rd, err2 = kc.GetIndex(svcUUID, "")
		if err2 == nil && rd != nil {
			got2, err2 = io.ReadAll(rd)
		}
		done = true
	})
	w.Run(nil)
	if w.Failed() || w.Truncated() {
		return
	}
	if !done {
		w.Infra("index readers did not return: %s", strings.Join(w.Blocked(), "; "))
		return
	}
	w.Logf("IndexMount err=%v entries=%d; GetIndex err=%v bytes=%d", err1 != nil, len(idx), err2 != nil, len(got2))
	if control {
		// sanity of the harness itself: the complete response must be readable
		if err1 != nil || len(idx) != m {
			w.Infra("control: IndexMount rejected or misread a complete index: err=%v entries=%d want %d", err1, len(idx), m)
		}
		for i := range idx {
			if i < len(ents) && (string(idx[i].SizedDigest) != ents[i].sd || idx[i].Mtime != ents[i].mt) {
				w.Infra("control: IndexMount entry %d = %v, want %v", i, idx[i], ents[i])
			}
		}
		if err2 != nil || string(got2)+"\n" != string(full) {
			w.Infra("control: GetIndex rejected or altered a complete index: err=%v got %d bytes", err2, len(got2))
		}
		w.Probe("index-complete-accepted")
		w.SetEndState("control")
		return
	}
	if err1 == nil {
		w.Violation("c06/truncated-index-accepted-by-balancer-reader", "arvados.KeepService.IndexMount returned %d entries and no error for a %d-entry index (%d bytes) cut after byte %d, framing %s; tail of what was served: %q", len(idx), m, len(full), cut, framingName[framing], string(full[max(0, cut-20):cut]))
	}
	if err2 == nil {
		w.Violation("c06/truncated-index-accepted-by-keepclient", "keepclient.GetIndex returned %d bytes and no error for a %d-entry index (%d bytes) cut after byte %d, framing %s; tail of what was served: %q", len(got2), m, len(full), cut, framingName[framing], string(full[max(0, cut-20):cut]))
	}
	w.SetEndState(fmt.Sprintf("cut %d/%d f%d", cut, len(full), framing))
}

// ---- part c: one failure at the k-th request of a sweep ---------------------------------------

func scenC06Abort(w *vsim.World, spec *vsim.Spec) {
	c := newSimCluster(w)
	c.api.ignoreSelect = w.Chance("api returns unselected attributes", 500)
	genLayout(c, layoutOpts{maxSrvSmall: 3, maxSrvBig: 6, bigChance: 100, classes: false, maxBlocks: 5, maxColls: 5})
	if len(c.api.colls) == 0 || w.Chance("ensure a referenced block", 700) {
		// most sweeps should get as far as sending lists: make sure something is wanted
		two := 2
		col := &simColl{uuid: "zzzzz-4zz18-ensure000000000", modifiedAt: time.Now().Add(-2 * time.Hour).UnixNano(), blocks: []string{c.blocks[0].hash}, replDes: &two}
		col.manifest = manifestFor(c.blocks[:1])
		col.pdh = pdhOf(col.manifest)
		c.api.colls = append(c.api.colls, col)
	}
	c.logLayout()
	nMounts := 0
	for _, s := range c.svcs {
		nMounts += len(s.mounts)
	}
	est := 8 + 4*len(c.svcs) + nMounts + 2*len(c.api.colls)
	k := 1 + w.Choose("fail request number", est)
	kind := w.Choose("failure kind", 6)
	var failedKind string
	var failedSeq int
	failedPath := ""
	c.intercept = func(rk string, r *vsim.NetRequest, rep *vsim.NetReply) *vsim.NetReply {
		if c.reqN != k || rep == nil {
			return rep
		}
		failedKind, failedSeq, failedPath = rk, c.reqN, r.Host+r.Path
		lat := rep.Latency
		switch kind {
		case 0, 1, 2:
			st := []int{500, 502, 503}[kind]
			rep = &vsim.NetReply{Status: st, Body: []byte(fmt.Sprintf("{\"errors\":[\"simulated %d\"]}", st)), Latency: lat}
			w.Fault(fmt.Sprintf("http-%d-on-%s", st, rk))
		case 3:
			rep = &vsim.NetReply{Err: vsim.ErrConnReset, Latency: lat}
			w.Fault("connection-reset-on-" + rk)
		case 4:
			rep = &vsim.NetReply{Err: vsim.ErrConnRefused, Latency: lat}
			w.Fault("connection-refused-on-" + rk)
		default:
			body := []byte(strings.TrimRight(string(rep.Body), " \n"))
			if rk == "index" {
				body = rep.Body // the index terminator is part of the format
			}
			if len(body) == 0 || rep.Status != 200 {
				rep = &vsim.NetReply{Err: vsim.ErrConnReset, Latency: lat}
				w.Fault("connection-reset-on-" + rk)
				break
			}
			cut := w.Choose("cut at byte", len(body))
			framing := w.Choose("framing", 4)
			nr := cutReply(w, body, cut, framing)
			nr.Latency = lat
			nr.Header = rep.Header
			rep = nr
			w.Fault("truncated-response-on-" + rk)
		}
		w.Logf("FAULT at request #%d (%s %s): kind %d", c.reqN, rk, failedPath, kind)
		return rep
	}
	res := c.sweep(spec, "c06c")
	if w.Failed() || w.Truncated() {
		return
	}
	if !res.returned {
		w.Infra("Balancer.Run did not return: %s", strings.Join(w.Blocked(), "; "))
		return
	}
	if failedSeq == 0 {
		w.Probe("abort-no-fault-reached")
		w.SetEndState("no-fault")
		return
	}
	w.Probe("abort-fault-on-" + failedKind)
	if failedKind != "index" && failedKind != "collections" {
		// the property speaks about index and collection fetches only
		w.SetEndState("fault-on-" + failedKind)
		return
	}
	if res.err == nil {
		w.Violation("c06/sweep-succeeds-after-failed-fetch", "request #%d (%s, %s) failed (failure kind %d) but Balancer.Run returned nil", failedSeq, failedKind, failedPath, kind)
	}
	var after []string
	for _, rl := range c.recv {
		if rl.seq <= failedSeq {
			continue
		}
		if rl.kind == "trash" && len(rl.trash) > 0 {
			w.Violation("c06/trash-after-failed-fetch", "request #%d (%s, %s) failed, yet afterwards (request #%d) %s received a trash list with %d entries %s; Run returned err=%v", failedSeq, failedKind, failedPath, rl.seq, rl.srv.host, len(rl.trash), canonTrash(rl.trash), res.err)
		}
		if rl.kind == "pull" && len(rl.pull) > 0 {
			w.Violation("c06/pull-after-failed-fetch", "request #%d (%s, %s) failed, yet afterwards (request #%d) %s received a pull list with %d entries %s; Run returned err=%v", failedSeq, failedKind, failedPath, rl.seq, rl.srv.host, len(rl.pull), canonPull(rl.pull), res.err)
		}
		if rl.kind == "pull" && len(rl.pull) == 0 {
			w.Violation("c06/empty-pull-list-after-failed-fetch", "request #%d (%s, %s) failed, yet afterwards (request #%d) %s received an (empty) pull list: the sweep went on to its commit phase; Run returned err=%v", failedSeq, failedKind, failedPath, rl.seq, rl.srv.host, res.err)
		}
		after = append(after, fmt.Sprintf("%s:%s:%d", rl.srv.host, rl.kind, len(rl.trash)+len(rl.pull)))
	}
	sort.Strings(after)
	w.SetEndState(fmt.Sprintf("fault-on-%s err=%v after=%v", failedKind, res.err != nil, after))
}
