//go:build go1.26

package main

// C05: keep-balance never trashes a replica that is still needed or too new.
// The REAL Balancer.Run sweeps a generated cluster over the simulated transport; the trash
// lists it sends are then EXECUTED on the physical device table under keepstore's own
// rules while pulls fail, and the replication-conservation invariant is evaluated on the
// devices.

import (
	"fmt"
	"io/ioutil"
	"net/http"
	"os"
	"path/filepath"
	"sort"
	"strings"
	"time"

	"git.arvados.org/arvados.git/sdk/go/arvados"
	"github.com/prometheus/client_golang/prometheus"
	"github.com/sirupsen/logrus"
	"verif.local/vsim"
)

var classMenuDev = [][]string{nil, {"default"}, {"c1"}, {"c2"}, {"c1", "default"}, {"c1", "c2"}}
var classMenuColl = [][]string{nil, {"default"}, {"c1"}, {"c2"}, {"c1", "c2"}, {"c1", "default"}, {"c3"}}

type layoutOpts struct {
	maxSrvSmall, maxSrvBig int
	bigChance              int // permille
	classes                bool
	maxBlocks              int
	maxColls               int
	// multiMount profile: 4-7 services with 1-3 mounts each on devices WITHOUT device ids, a third of the
	// mounts read-only, old replicas only, high desired replication, no storage classes: the layouts in
	// which balanceBlock's two passes over the slots (distinct servers first, then the rest) matter
	multiMount bool
}

// genLayout draws services, mounts, devices, blocks, replicas and collections.
func genLayout(c *simCluster, o layoutOpts) {
	w := c.w
	rnd := w.NewRand("ids")
	t0 := time.Now()
	c.ttl = []int64{3600, 300, 86400, 1209600}[w.Choose("ttl", 4)]
	c.defRepl = 1 + w.Choose("default-replication", 3)
	maxSrv, maxMnt := o.maxSrvSmall, 2
	if w.Chance("big-layout", o.bigChance) {
		maxSrv, maxMnt = o.maxSrvBig, 3
		w.Probe("layout-big")
	}
	nSrv := 1 + w.Choose("services", maxSrv)
	if o.multiMount {
		nSrv, maxMnt = 4+w.Choose("services", 4), 3
		w.Probe("layout-multi-mount")
	}
	if w.Chance("keep-services-paged", 200) {
		c.ksCap = 1 + w.Choose("keep-services-page", nSrv)
	}
	for i := 0; i < nSrv; i++ {
		s := &simSrv{idx: i, uuid: "zzzzz-bi6l4-" + randID(rnd, 15), host: fmt.Sprintf("keep%d.sim", i), port: 25107, typ: "disk"}
		s.readOnly = w.Chance(fmt.Sprintf("srv%d read-only", i), 150)
		s.ssl = w.Chance(fmt.Sprintf("srv%d ssl", i), 200)
		c.svcs = append(c.svcs, s)
		c.byHost[s.hostport()] = s
		nm := 1 + w.Choose(fmt.Sprintf("srv%d mounts", i), maxMnt)
		for j := 0; j < nm; j++ {
			var dev *simDevice
			kind := w.Choose(fmt.Sprintf("srv%d mnt%d device", i, j), 4) // 0 own id, 1 blank, 2/3 share an existing device
			if o.multiMount {
				kind = 1
			}
			if kind >= 2 {
				var cand []*simDevice
				for _, d := range c.devs {
					if d.deviceID == "" {
						continue
					}
					onThis := false
					for _, v := range d.views {
						if v.srv == s {
							onThis = true
						}
					}
					if !onThis {
						cand = append(cand, d)
					}
				}
				if len(cand) > 0 {
					dev = cand[w.Choose("shared device", len(cand))]
					w.Probe("device-shared")
				}
			}
			if dev == nil {
				dev = &simDevice{key: fmt.Sprintf("dev%02d", len(c.devs)), repl: []int{1, 1, 2, 3}[w.Choose("device replication", 4)], blocks: map[string]*simReplica{}}
				if kind != 1 {
					dev.deviceID = "drive-" + randID(rnd, 8)
				}
				if o.classes {
					dev.classes = classMenuDev[w.Choose("device classes", len(classMenuDev))]
				}
				c.devs = append(c.devs, dev)
			}
			roPM := 200
			if o.multiMount {
				roPM = 350
				dev.repl = 1
			}
			m := &simMount{dev: dev, srv: s, readOnly: w.Chance(fmt.Sprintf("srv%d mnt%d read-only", i, j), roPM)}
			if len(dev.views) > 0 && !w.Chance("shared mount gets own uuid", 400) {
				m.uuid = dev.views[0].uuid // one volume entry in the cluster config, mounted by several hosts
			} else {
				m.uuid = "zzzzz-nyw5e-" + randID(rnd, 15)
			}
			dev.views = append(dev.views, m)
			s.mounts = append(s.mounts, m)
		}
	}
	// blocks and replicas
	nb := 1 + w.Choose("blocks", o.maxBlocks)
	ttlNs := c.ttl * int64(time.Second)
	now := t0.UnixNano()
	for i := 0; i < nb; i++ {
		b := &simBlock{hash: md5hex(fmt.Sprintf("block %d %d", i, rnd.Uint64())), size: 1 + rnd.Intn(1000)}
		c.blocks = append(c.blocks, b)
		collideOld := now - ttlNs - int64(1+rnd.Intn(100000))*int64(time.Second)
		collideNew := now - int64(rnd.Intn(int(c.ttl/2)))*int64(time.Second)
		p := []int{0, 250, 500, 800}[w.Choose(fmt.Sprintf("block%d density", i), 4)]
		for _, d := range c.devs {
			if !w.Chance(fmt.Sprintf("block%d on %s", i, d.key), p) {
				continue
			}
			var mt int64
			mk := w.Choose(fmt.Sprintf("block%d on %s mtime", i, d.key), 6)
			if o.multiMount {
				mk = 0
			}
			switch mk {
			case 0: // old
				mt = now - ttlNs - int64(1+rnd.Intn(100000))*int64(time.Second) - int64(rnd.Intn(1e9))
			case 1: // new
				mt = now - int64(rnd.Intn(int(c.ttl/2)))*int64(time.Second) - int64(rnd.Intn(1e9))
				w.Probe("replica-new")
			case 2: // colliding, old
				mt = collideOld
				w.Probe("replica-mtime-collision")
			case 3: // colliding, new
				mt = collideNew
				w.Probe("replica-mtime-collision")
			case 4: // just older than the TTL
				mt = now - ttlNs - int64(1+rnd.Intn(50))*int64(time.Millisecond)
			case 5: // about to cross the TTL during the sweep
				mt = now - ttlNs + int64(1+rnd.Intn(2000))*int64(time.Millisecond)
				w.Probe("replica-crossing-ttl")
			}
			d.blocks[b.hash] = &simReplica{size: b.size, mtime: mt}
		}
	}
	// collections
	nc := w.Choose("collections", o.maxColls+1)
	base := t0.Add(-time.Hour).UnixNano()
	for i := 0; i < nc; i++ {
		col := &simColl{uuid: "zzzzz-4zz18-" + randID(rnd, 15), modifiedAt: base + int64(w.Choose(fmt.Sprintf("coll%d modified", i), 3))*int64(time.Second)}
		var bl []*simBlock
		for j, b := range c.blocks {
			if w.Chance(fmt.Sprintf("coll%d refs block%d", i, j), 500) {
				bl = append(bl, b)
				col.blocks = append(col.blocks, b.hash)
			}
		}
		col.manifest = manifestFor(bl)
		col.pdh = pdhOf(col.manifest)
		if r := w.Choose(fmt.Sprintf("coll%d replication", i), 6); r > 0 {
			v := []int{2, 1, 3, 0, 4}[r-1]
			if o.multiMount {
				v = []int{3, 4, 3, 2, 5}[r-1]
			}
			col.replDes = &v
		}
		if o.classes {
			col.classes = classMenuColl[w.Choose(fmt.Sprintf("coll%d classes", i), len(classMenuColl))]
		}
		col.trashed = w.Chance(fmt.Sprintf("coll%d trashed", i), 100)
		col.oldVersion = w.Chance(fmt.Sprintf("coll%d old-version", i), 100)
		c.api.colls = append(c.api.colls, col)
	}
	c.api.maxPage = []int{0, 1, 2, 5, 1000}[w.Choose("api max page", 5)]
	c.api.shortPages = w.Chance("api short pages", 300)
}

func (c *simCluster) logLayout() {
	w := c.w
	w.Logf("layout: ttl=%ds default-replication=%d api{maxPage=%d short=%v ignoreSelect=%v}", c.ttl, c.defRepl, c.api.maxPage, c.api.shortPages, c.api.ignoreSelect)
	for _, s := range c.svcs {
		var ms []string
		for _, m := range s.mounts {
			ms = append(ms, fmt.Sprintf("%s->%s(id=%q repl=%d classes=%v ro=%v)", tail(m.uuid, 4), m.dev.key, m.dev.deviceID, m.dev.repl, m.dev.classes, m.readOnly))
		}
		w.Logf("layout: srv %s %s ro=%v ssl=%v mounts %s", s.host, s.uuid, s.readOnly, s.ssl, strings.Join(ms, " "))
	}
	now := time.Now().UnixNano()
	for _, b := range c.blocks {
		var hs []string
		for _, d := range c.devs {
			if r := d.blocks[b.hash]; r != nil {
				hs = append(hs, fmt.Sprintf("%s(age=%.3fs)", d.key, float64(now-r.mtime)/1e9))
			}
		}
		w.Logf("layout: block %s on %s", b.hash[:6], strings.Join(hs, " "))
	}
	for _, col := range c.api.colls {
		var bs []string
		for _, h := range col.blocks {
			bs = append(bs, h[:6])
		}
		rd := "default"
		if col.replDes != nil {
			rd = fmt.Sprint(*col.replDes)
		}
		w.Logf("layout: coll %s repl=%s classes=%v trashed=%v old=%v blocks %v", tail(col.uuid, 4), rd, col.storedClasses(), col.trashed, col.oldVersion, bs)
	}
}

// sweep runs the real Balancer.Run as a task and steps the world until it has returned.
var sweepSeq int // per-process counter for scratch file names (never logged)

type sweepResult struct {
	returned bool
	err      error
	bal      *Balancer
	lostFile string
	lost     map[string][]string // hash -> sorted pdhs, from the lost-blocks file
	lostRead bool
}

func (c *simCluster) sweep(spec *vsim.Spec, tag string) *sweepResult {
	w := c.w
	res := &sweepResult{}
	logger := logrus.New()
	logger.Out = ioutil.Discard
	dir := os.TempDir()
	sweepSeq++
	res.lostFile = filepath.Join(dir, fmt.Sprintf("verif-lost-%d-%s-%d", os.Getpid(), tag, sweepSeq))
	os.Remove(res.lostFile)
	os.Remove(res.lostFile + ".tmp")
	bal := &Balancer{Logger: logger, Metrics: newMetrics(prometheus.NewRegistry()), LostBlocksFile: res.lostFile}
	res.bal = bal
	client := &arvados.Client{APIHost: c.api.host, AuthToken: "xyzzy", Client: &http.Client{Transport: canonTransport{c.net}}, Timeout: 5 * time.Minute}
	cluster := &arvados.Cluster{}
	cluster.Collections.BalanceTimeout = arvados.Duration(6 * time.Hour)
	cluster.Collections.BalanceCollectionBatch = []int{0, 1, 2, 3, 100}[w.Choose("balance page size", 5)]
	cluster.Collections.BalanceCollectionBuffers = w.Choose("balance buffers", 3)
	// nothing may bypass the simulated network
	oldDef, oldSec, oldInsec := http.DefaultTransport, arvados.DefaultSecureClient.Transport, arvados.InsecureHTTPClient.Transport
	http.DefaultTransport, arvados.DefaultSecureClient.Transport, arvados.InsecureHTTPClient.Transport = trapTransport{w}, trapTransport{w}, trapTransport{w}
	defer func() {
		http.DefaultTransport, arvados.DefaultSecureClient.Transport, arvados.InsecureHTTPClient.Transport = oldDef, oldSec, oldInsec
	}()
	w.Spawn("balancer", func() {
		_, res.err = bal.Run(client, cluster, RunOptions{CommitPulls: true, CommitTrash: true, Logger: logger})
		res.returned = true
	})
	w.Run(nil)
	if res.returned {
		if res.err != nil {
			w.Logf("sweep returned error: %s", firstLine(res.err.Error()))
		} else {
			w.Logf("sweep returned ok")
		}
	}
	if b, err := os.ReadFile(res.lostFile); err == nil {
		res.lostRead = true
		res.lost = map[string][]string{}
		for _, ln := range strings.Split(string(b), "\n") {
			f := strings.Fields(ln)
			if len(f) == 0 {
				continue
			}
			p := append([]string(nil), f[1:]...)
			sort.Strings(p)
			res.lost[f[0]] = p
		}
	}
	os.Remove(res.lostFile)
	os.Remove(res.lostFile + ".tmp")
	return res
}

func firstLine(s string) string {
	if i := strings.IndexByte(s, '\n'); i >= 0 {
		s = s[:i]
	}
	if len(s) > 300 {
		s = s[:300]
	}
	return s
}

// ---- oracle helpers ------------------------------------------------------------------------

// desiredFor returns class -> desired replication for a block, from the collections table.
// told=true uses only the attributes the API actually put on the wire (what the balancer
// could know); told=false uses the stored records.
func (c *simCluster) desiredFor(hash string, told bool) map[string]int {
	des := map[string]int{}
	for _, col := range c.api.colls {
		refs := false
		for _, h := range col.blocks {
			if h == hash {
				refs = true
			}
		}
		if !refs {
			continue
		}
		n := c.defRepl
		if col.replDes != nil && (!told || c.api.toldRepl[col.uuid]) {
			n = *col.replDes
		}
		classes := col.storedClasses()
		if told && !c.api.toldClasses[col.uuid] {
			classes = []string{"default"}
		}
		for _, cl := range classes {
			if n > des[cl] {
				des[cl] = n
			}
			if _, ok := des[cl]; !ok {
				des[cl] = n
			}
		}
	}
	return des
}

func (c *simCluster) referenced(hash string) bool {
	for _, col := range c.api.colls {
		for _, h := range col.blocks {
			if h == hash {
				return true
			}
		}
	}
	return false
}

// replication of a block for a class, counted over distinct physical devices.
func (c *simCluster) replication(hash, class string) int {
	n := 0
	for _, d := range c.devs {
		if d.blocks[hash] != nil && d.inClass(class) {
			n += d.repl
		}
	}
	return n
}

// replicationByViews counts every mount view separately (diagnostic only: tells a layout in
// which one device seen through two servers looks like two replicas).
func (c *simCluster) replicationByViews(hash, class string) int {
	n := 0
	for _, d := range c.devs {
		if d.blocks[hash] != nil && d.inClass(class) {
			n += d.repl * len(d.views)
		}
	}
	return n
}

func (c *simCluster) allClasses() []string {
	set := map[string]bool{"default": true}
	for _, d := range c.devs {
		for _, cl := range d.classes {
			set[cl] = true
		}
	}
	for _, col := range c.api.colls {
		for _, cl := range col.storedClasses() {
			set[cl] = true
		}
	}
	return vsim.SortedKeys(set)
}

func (s *simSrv) mountByUUID(u string) *simMount {
	for _, m := range s.mounts {
		if m.uuid == u {
			return m
		}
	}
	return nil
}

func (c *simCluster) srvByURL(u string) *simSrv {
	for _, s := range c.svcs {
		if s.urlBase() == u {
			return s
		}
	}
	return nil
}

func (c *simCluster) blockByHash(h string) *simBlock {
	for _, b := range c.blocks {
		if b.hash == h {
			return b
		}
	}
	return nil
}

// executeTrash applies one received trash entry the way keepstore's trash worker does:
// nothing happens unless the named mount exists on that server and is writable, the stored
// mtime equals the requested one, and the block is at least TTL old.
func (c *simCluster) executeTrash(s *simSrv, e trashEnt, now time.Time) bool {
	ttl := time.Duration(c.ttl) * time.Second
	if now.Sub(time.Unix(0, e.BlockMtime)) < ttl {
		return false
	}
	var targets []*simMount
	if e.MountUUID == "" {
		for _, m := range s.mounts {
			if !m.readOnly {
				targets = append(targets, m)
			}
		}
	} else if m := s.mountByUUID(e.MountUUID); m != nil && !m.readOnly {
		targets = []*simMount{m}
	}
	acted := false
	for _, m := range targets {
		r := m.dev.blocks[e.Locator]
		if r == nil || r.mtime != e.BlockMtime || now.Sub(time.Unix(0, r.mtime)) < ttl {
			continue
		}
		delete(m.dev.blocks, e.Locator)
		acted = true
	}
	return acted
}

// ---- the scenario ----------------------------------------------------------------------------

func scenC05(w *vsim.World, spec *vsim.Spec) {
	c := newSimCluster(w)
	c.api.ignoreSelect = w.Chance("api returns unselected attributes", 500)
	if w.Choose("layout-profile", 4) == 3 {
		genLayout(c, layoutOpts{multiMount: true, maxSrvSmall: 4, maxSrvBig: 16, bigChance: 0, classes: false, maxBlocks: 6, maxColls: 3})
	} else {
		genLayout(c, layoutOpts{maxSrvSmall: 4, maxSrvBig: 16, bigChance: 150, classes: w.Chance("storage classes in use", 500), maxBlocks: 12, maxColls: 6})
	}
	c.logLayout()
	// replication before the sweep, per block and class, over distinct devices
	classes := c.allClasses()
	before := map[string]map[string]int{}
	beforeViews := map[string]map[string]int{}
	held := map[string]map[string]int64{} // hash -> device key -> mtime at sweep start
	for _, b := range c.blocks {
		before[b.hash], beforeViews[b.hash], held[b.hash] = map[string]int{}, map[string]int{}, map[string]int64{}
		for _, cl := range classes {
			before[b.hash][cl] = c.replication(b.hash, cl)
			beforeViews[b.hash][cl] = c.replicationByViews(b.hash, cl)
		}
		for _, d := range c.devs {
			if r := d.blocks[b.hash]; r != nil {
				held[b.hash][d.key] = r.mtime
			}
		}
	}
	res := c.sweep(spec, "c05")
	if w.Failed() || w.Truncated() {
		return
	}
	if !res.returned {
		w.Infra("Balancer.Run did not return: %s", strings.Join(w.Blocked(), "; "))
		return
	}
	if res.err != nil {
		// sanity checks refused the sweep (no collections, nothing desired, ...): whatever
		// lists were sent anyway are still judged below
		w.Probe("sweep-refused")
	} else {
		w.Probe("sweep-committed")
	}
	ttl := time.Duration(c.ttl) * time.Second
	desired := map[string]map[string]int{}
	desiredTold := map[string]map[string]int{}
	toldDiffers := false
	for _, b := range c.blocks {
		desired[b.hash] = c.desiredFor(b.hash, false)
		desiredTold[b.hash] = c.desiredFor(b.hash, true)
		if fmt.Sprint(desired[b.hash]) != fmt.Sprint(desiredTold[b.hash]) {
			toldDiffers = true
		}
	}
	if toldDiffers {
		w.Probe("storage-classes-not-on-the-wire")
	}
	// under-replicated blocks (some class below its desired level), by distinct devices
	underrep := func(hash string, des map[string]int) (string, bool) {
		for _, cl := range vsim.SortedKeys(des) {
			if des[cl] > 0 && before[hash][cl] < des[cl] {
				return cl, true
			}
		}
		return "", false
	}
	// sigFor names the class of layout behind a violation so that a known finding matches
	// exactly that class and nothing else.
	sigFor := func(hash string) string {
		if cl, u := underrep(hash, desired[hash]); u {
			if _, uTold := underrep(hash, desiredTold[hash]); !uTold {
				return "storage_classes_desired-not-selected"
			}
			offered := false
			for _, d := range c.devs {
				if d.inClass(cl) {
					offered = true
				}
			}
			if !offered {
				return "desired-class-offered-by-no-mount"
			}
			if beforeViews[hash][cl] >= desired[hash][cl] {
				return "shared-device-counted-once-per-mount"
			}
		}
		if fmt.Sprint(desired[hash]) != fmt.Sprint(desiredTold[hash]) {
			return "storage_classes_desired-not-selected"
		}
		return ""
	}
	// sigLost classifies a conservation failure by testing hypotheses about what the sweep
	// must have counted: the class list it was told, replicas outside the class, or one
	// device counted once per mount view.
	sigLost := func(hash, cl string, after int) string {
		if wt := min(desiredTold[hash][cl], before[hash][cl]); after >= wt && desiredTold[hash][cl] != desired[hash][cl] {
			return "storage_classes_desired-not-selected"
		}
		want := min(desired[hash][cl], before[hash][cl])
		extra := 0
		for _, d := range c.devs {
			if d.blocks[hash] != nil && !d.inClass(cl) {
				extra += d.repl
			}
		}
		if extra > 0 && after+extra >= want {
			return "replica-outside-class-counted-toward-class"
		}
		if c.replicationByViews(hash, cl) >= want {
			return "shared-device-counted-once-per-mount"
		}
		if fmt.Sprint(desired[hash]) != fmt.Sprint(desiredTold[hash]) {
			return "storage_classes_desired-not-selected"
		}
		return ""
	}
	// development aid only: VERIF_BALANCE_MASK=sig1,sig2 turns violations of those layout
	// classes into probes so that the rest of the oracle can be exercised before the
	// corresponding known-finding entries exist. Never set by registered commands.
	violSig := func(clause, sig, f string, a ...any) {
		if sig != "" {
			for _, m := range strings.Split(os.Getenv("VERIF_BALANCE_MASK"), ",") {
				if m == sig || m == clause+"|"+sig {
					w.Probe("masked " + clause + " | " + sig)
					return
				}
			}
		}
		w.ViolationSig(clause, sig, f, a...)
	}

	nTrash, nPull := 0, 0
	for _, rl := range c.recv {
		for _, e := range rl.trash {
			nTrash++
			b := c.blockByHash(e.Locator)
			if b == nil {
				w.Violation("c05/trash-unknown-block", "server %s was asked to trash %s which no index ever listed", rl.srv.host, e.Locator)
				continue
			}
			// (a) legality of the request itself
			if rl.srv.readOnly {
				w.Violation("c05/trash-on-read-only-service", "trash request for %s sent to read-only service %s (mount %s)", e.Locator[:6], rl.srv.host, e.MountUUID)
			}
			var named []*simMount
			if e.MountUUID == "" {
				named = rl.srv.mounts
			} else if m := rl.srv.mountByUUID(e.MountUUID); m != nil {
				named = []*simMount{m}
			} else {
				w.Violation("c05/trash-names-foreign-mount", "trash request for %s sent to %s names mount %s which that server does not have", e.Locator[:6], rl.srv.host, e.MountUUID)
			}
			for _, m := range named {
				if m.readOnly && e.MountUUID != "" {
					w.Violation("c05/trash-on-read-only-mount", "trash request for %s names read-only mount %s on %s", e.Locator[:6], e.MountUUID, rl.srv.host)
				}
			}
			if age := rl.at.Sub(time.Unix(0, e.BlockMtime)); age < ttl {
				w.Violation("c05/trash-too-new", "trash request for %s on %s/%s names a replica only %s old when the request arrived; signature TTL is %s", e.Locator[:6], rl.srv.host, tail(e.MountUUID, 4), age, ttl)
			}
			// (c) nothing at all while under-replicated for some class
			if cl, u := underrep(e.Locator, desired[e.Locator]); u {
				violSig("c05/trash-while-underreplicated", sigFor(e.Locator),
					"block %s is under-replicated for class %q (have %d over distinct devices, %d counting every mount view, want %d) yet %s was asked to trash the replica on mount %s (%s); holders: %s",
					e.Locator[:6], cl, before[e.Locator][cl], beforeViews[e.Locator][cl], desired[e.Locator][cl], rl.srv.host, tail(e.MountUUID, 4), c.devOfMount(rl.srv, e.MountUUID), c.describeHolders(e.Locator, held))
			}
		}
		for _, e := range rl.pull {
			nPull++
			// (d) pulls
			b := c.blockByHash(e.Locator)
			if b == nil {
				w.Violation("c05/pull-unknown-block", "server %s was asked to pull %s which does not exist", rl.srv.host, e.Locator)
				continue
			}
			m := rl.srv.mountByUUID(e.MountUUID)
			switch {
			case m == nil:
				w.Violation("c05/pull-names-foreign-mount", "pull of %s sent to %s names mount %q which that server does not have", e.Locator[:6], rl.srv.host, e.MountUUID)
			case m.readOnly || rl.srv.readOnly:
				w.Violation("c05/pull-to-read-only", "pull of %s targets mount %s on %s (mount read-only=%v, service read-only=%v)", e.Locator[:6], tail(e.MountUUID, 4), rl.srv.host, m.readOnly, rl.srv.readOnly)
			default:
				if _, has := held[e.Locator][m.dev.key]; has {
					w.Violation("c05/pull-to-mount-that-has-it", "pull of %s targets mount %s on %s whose device %s already holds the block", e.Locator[:6], tail(e.MountUUID, 4), rl.srv.host, m.dev.key)
				}
			}
			if len(e.Servers) == 0 {
				w.Violation("c05/pull-without-source", "pull of %s on %s names no source", e.Locator[:6], rl.srv.host)
			}
			for _, u := range e.Servers {
				src := c.srvByURL(u)
				has := false
				if src != nil {
					for _, sm := range src.mounts {
						if _, ok := held[e.Locator][sm.dev.key]; ok {
							has = true
						}
					}
				}
				if !has {
					w.Violation("c05/pull-source-lacks-block", "pull of %s on %s names source %s which does not hold the block", e.Locator[:6], rl.srv.host, u)
				}
			}
		}
	}
	if nTrash > 0 {
		w.Probe("trash-requested")
	}
	if nPull > 0 {
		w.Probe("pull-requested")
	}
	if w.Failed() {
		return
	}
	// carry out the lists: a seeded subset of pulls succeeds (usually none), every trash list is executed
	w.Advance(time.Duration(1+w.Choose("delay before execution", 5)) * time.Second)
	if w.Chance("some pulls succeed", 200) {
		for _, rl := range c.recv {
			for _, e := range rl.pull {
				if m := rl.srv.mountByUUID(e.MountUUID); m != nil && !m.readOnly && w.Chance("pull succeeds", 500) {
					if m.dev.blocks[e.Locator] == nil {
						m.dev.blocks[e.Locator] = &simReplica{size: c.blockByHash(e.Locator).size, mtime: time.Now().UnixNano()}
						w.Probe("pull-succeeded")
					}
				}
			}
		}
	} else if nPull > 0 {
		w.Fault("all-pulls-fail")
	}
	acted := 0
	for _, rl := range c.recv {
		for _, e := range rl.trash {
			if c.executeTrash(rl.srv, e, time.Now()) {
				acted++
				w.Logf("executed: %s trashed %s on mount %s", rl.srv.host, e.Locator[:6], tail(e.MountUUID, 4))
			}
		}
	}
	if acted > 0 {
		w.Probe("trash-executed")
	}
	// (b) conservation over distinct devices
	for _, b := range c.blocks {
		for _, cl := range classes {
			want := desired[b.hash][cl]
			if before[b.hash][cl] < want {
				want = before[b.hash][cl]
			}
			if after := c.replication(b.hash, cl); after < want {
				violSig("c05/replication-lost", sigLost(b.hash, cl, after),
					"block %s class %q: desired %d, replication over distinct devices was %d before the sweep and is %d after executing the trash lists with no pull succeeding; holders before: %s",
					b.hash[:6], cl, desired[b.hash][cl], before[b.hash][cl], after, c.describeHolders(b.hash, held))
			}
		}
	}
	// (e) lost blocks are reported
	for _, b := range c.blocks {
		if len(held[b.hash]) > 0 || res.err != nil {
			continue
		}
		anyWanted := false
		for _, n := range desired[b.hash] {
			if n > 0 {
				anyWanted = true
			}
		}
		if !anyWanted {
			continue
		}
		w.Probe("block-lost")
		inFile := res.lostRead && res.lost[b.hash] != nil
		if !inFile {
			sig := ""
			writable, offered := false, false
			for _, s := range c.svcs {
				for _, m := range s.mounts {
					if !m.readOnly && !s.readOnly {
						writable = true
					}
				}
			}
			for _, cl := range vsim.SortedKeys(desired[b.hash]) {
				for _, d := range c.devs {
					if desired[b.hash][cl] > 0 && d.inClass(cl) {
						offered = true
					}
				}
			}
			if !offered {
				sig = "desired-class-offered-by-no-mount"
			} else if !writable {
				sig = "no-writable-mount"
			}
			violSig("c05/lost-block-not-reported", sig, "block %s is referenced (desired %v) and no device holds it, but the lost-blocks file (%v) does not list it and the sweep counted %d lost blocks", b.hash[:6], desired[b.hash], res.lost, res.bal.stats.lost.blocks)
		}
	}
	w.SetEndState(fmt.Sprintf("err=%v trash=%d pull=%d acted=%d srv=%d dev=%d", res.err != nil, nTrash, nPull, acted, len(c.svcs), len(c.devs)))
}

func (c *simCluster) devOfMount(s *simSrv, uuid string) string {
	if m := s.mountByUUID(uuid); m != nil {
		return fmt.Sprintf("device %s id=%q", m.dev.key, m.dev.deviceID)
	}
	return "?"
}

func (c *simCluster) describeHolders(hash string, held map[string]map[string]int64) string {
	var out []string
	for _, d := range c.devs {
		if _, ok := held[hash][d.key]; !ok {
			continue
		}
		var vs []string
		for _, m := range d.views {
			ro := ""
			if m.readOnly || m.srv.readOnly {
				ro = ",ro"
			}
			vs = append(vs, m.srv.host+ro)
		}
		cls := d.classes
		if len(cls) == 0 {
			cls = []string{"default"}
		}
		out = append(out, fmt.Sprintf("%s{id=%q repl=%d classes=%v via %s}", d.key, d.deviceID, d.repl, cls, strings.Join(vs, "+")))
	}
	if len(out) == 0 {
		return "none"
	}
	return strings.Join(out, " ")
}
