//go:build go1.26

package main

// Simulated cluster for the keep-balance harness: an Arvados API model (keep_services,
// users/current, discovery document, collections list) and keepstore models that own a
// PHYSICAL DEVICE TABLE. Everything here is touched only from vsim.Net handlers and from
// the scenario root, so no locking is needed.

import (
	"crypto/md5"
	"encoding/json"
	"fmt"
	"io"
	"net/http"
	"net/url"
	"sort"
	"strconv"
	"strings"
	"time"

	"verif.local/vsim"
)

// ---- physical devices, mounts, servers ---------------------------------------------------

type simReplica struct {
	size  int
	mtime int64 // ns since epoch
}

// simDevice is one physical backend (a disk, a bucket). Replication and storage classes
// belong to the device: every mount that exposes it reports the same values.
type simDevice struct {
	key      string   // canonical name used in logs ("dev03")
	deviceID string   // what mounts report; "" = private device of exactly one mount
	repl     int      // 1..3
	classes  []string // sorted; empty = implicit "default"
	blocks   map[string]*simReplica
	views    []*simMount
}

func (d *simDevice) inClass(c string) bool {
	if len(d.classes) == 0 {
		return c == "default"
	}
	for _, x := range d.classes {
		if x == c {
			return true
		}
	}
	return false
}

type simMount struct {
	uuid     string
	dev      *simDevice
	readOnly bool
	srv      *simSrv
}

type trashEnt struct {
	Locator    string `json:"locator"`
	BlockMtime int64  `json:"block_mtime"`
	MountUUID  string `json:"mount_uuid"`
}

type pullEnt struct {
	Locator   string   `json:"locator"`
	Servers   []string `json:"servers"`
	MountUUID string   `json:"mount_uuid"`
}

type recvList struct {
	seq   int // request sequence number
	at    time.Time
	srv   *simSrv
	trash []trashEnt
	pull  []pullEnt
	kind  string // "trash" | "pull"
}

type simSrv struct {
	idx      int
	uuid     string
	host     string // "keepN.sim"
	port     int
	ssl      bool
	readOnly bool
	typ      string
	mounts   []*simMount
}

func (s *simSrv) hostport() string { return fmt.Sprintf("%s:%d", s.host, s.port) }
func (s *simSrv) urlBase() string {
	if s.ssl {
		return "https://" + s.hostport()
	}
	return "http://" + s.hostport()
}

// ---- API model: collections ----------------------------------------------------------------

type simColl struct {
	uuid       string
	modifiedAt int64 // ns since epoch (multiple of 1000: the database keeps microseconds)
	pdh        string
	manifest   string
	replDes    *int
	classes    []string // as stored; the server's column default is ["default"]
	trashed    bool
	oldVersion bool
	blocks     []string // hashes referenced (harness bookkeeping)
}

func (c *simColl) storedClasses() []string {
	if len(c.classes) == 0 {
		return []string{"default"}
	}
	return c.classes
}

const apiTimeFmt = "2006-01-02T15:04:05.000000000Z"

type simAPI struct {
	w    *vsim.World
	host string
	// collections table, unordered; deleted rows are removed
	colls []*simColl
	// server-side cap on the page size (documented: "Server may also impose a maximum")
	maxPage int
	// with some probability a page is shorter than asked (response size limit), never empty when rows match
	shortPages bool
	// a server that returns every attribute whatever `select` says (what upstream's stub servers do)
	ignoreSelect bool
	// hook run at the start of every collections request (C06a mutations)
	beforeColl func()
	// history of what was put on the wire
	pagesServed  int
	lastPage     []string        // uuids of the most recent non-count page
	everSent     map[string]bool // uuid -> was in some page
	toldClasses  map[string]bool // uuid -> storage_classes_desired was included in some response
	toldRepl     map[string]bool // uuid -> replication_desired was included
	nullTimeRows int
}

func md5hex(s string) string { return fmt.Sprintf("%x", md5.Sum([]byte(s))) }

func jsonReply(status int, v any) *vsim.NetReply {
	b, err := json.Marshal(v)
	if err != nil {
		panic(err)
	}
	return &vsim.NetReply{Status: status, Body: b, Header: http.Header{"Content-Type": {"application/json"}}}
}

func apiError(status int, f string, a ...any) *vsim.NetReply {
	return jsonReply(status, map[string]any{"errors": []string{fmt.Sprintf(f, a...)}})
}

// requestParams merges query-string and form-body parameters the way the API server does
// (a POST carrying X-Http-Method-Override: GET, or _method=GET, is a GET).
func requestParams(r *vsim.NetRequest) (method string, vals url.Values, err error) {
	vals, err = url.ParseQuery(r.Query)
	if err != nil {
		return
	}
	method = r.Method
	if r.Method == "POST" && strings.HasPrefix(r.Header.Get("Content-Type"), "application/x-www-form-urlencoded") {
		var form url.Values
		form, err = url.ParseQuery(string(r.Body))
		if err != nil {
			return
		}
		for k, v := range form {
			vals[k] = v
		}
		if o := r.Header.Get("X-Http-Method-Override"); o != "" {
			method = o
		} else if o := vals.Get("_method"); o != "" {
			method = o
		}
	}
	return
}

func truthy(s string) bool { return s == "true" || s == "1" || s == "yes" }

type collFilter struct {
	attr, op string
	isNull   bool
	str      string
	tm       int64
}

func cmpInt(a, b int64) int {
	switch {
	case a < b:
		return -1
	case a > b:
		return 1
	}
	return 0
}

func opHolds(op string, c int) (bool, bool) {
	switch op {
	case "=":
		return c == 0, true
	case "!=":
		return c != 0, true
	case "<":
		return c < 0, true
	case "<=":
		return c <= 0, true
	case ">":
		return c > 0, true
	case ">=":
		return c >= 0, true
	}
	return false, false
}

var collAttrs = map[string]bool{"uuid": true, "modified_at": true, "portable_data_hash": true, "manifest_text": true,
	"unsigned_manifest_text": true, "replication_desired": true, "storage_classes_desired": true, "is_trashed": true,
	"current_version_uuid": true, "version": true, "kind": true, "name": true, "owner_uuid": true, "created_at": true}

// listCollections implements the documented list method for the collections table: the
// filter / order / limit / offset / count / select / include_trash / include_old_versions
// subset, written from doc/api/methods.html.textile.liquid.
func (a *simAPI) listCollections(r *vsim.NetRequest) *vsim.NetReply {
	if a.beforeColl != nil {
		a.beforeColl()
	}
	method, vals, err := requestParams(r)
	if err != nil || method != "GET" {
		return apiError(422, "bad request %v %s", err, method)
	}
	var filters []collFilter
	if fs := vals.Get("filters"); fs != "" {
		var raw [][]any
		if err := json.Unmarshal([]byte(fs), &raw); err != nil {
			return apiError(422, "invalid filters: %v", err)
		}
		for _, f := range raw {
			if len(f) != 3 {
				return apiError(422, "invalid filter")
			}
			attr, ok1 := f[0].(string)
			op, ok2 := f[1].(string)
			if !ok1 || !ok2 {
				return apiError(422, "invalid filter")
			}
			cf := collFilter{attr: attr, op: op}
			if _, ok := opHolds(op, 0); !ok {
				return apiError(422, "invalid operator %q", op)
			}
			switch v := f[2].(type) {
			case nil:
				cf.isNull = true
				if op != "=" && op != "!=" {
					return apiError(422, "invalid operand null for %s", op)
				}
			case string:
				cf.str = v
			default:
				return apiError(422, "invalid operand type for %s", attr)
			}
			switch attr {
			case "uuid":
			case "modified_at":
				if !cf.isNull {
					t, err := time.Parse(time.RFC3339Nano, cf.str)
					if err != nil {
						return apiError(422, "invalid timestamp %q", cf.str)
					}
					cf.tm = t.UnixNano()
				}
			default:
				return apiError(422, "invalid attribute %q in filter", attr)
			}
			filters = append(filters, cf)
		}
	}
	type ordKey struct {
		attr string
		desc bool
	}
	order := []ordKey{{"modified_at", true}, {"uuid", false}} // documented default
	if o := strings.TrimSpace(vals.Get("order")); o != "" {
		var parts []string
		if strings.HasPrefix(o, "[") {
			if err := json.Unmarshal([]byte(o), &parts); err != nil {
				return apiError(422, "invalid order")
			}
		} else {
			parts = strings.Split(o, ",")
		}
		order = nil
		for _, p := range parts {
			f := strings.Fields(p)
			if len(f) == 0 || len(f) > 2 {
				return apiError(422, "invalid order %q", p)
			}
			k := ordKey{attr: f[0]}
			if i := strings.Index(k.attr, "."); i >= 0 {
				if k.attr[:i] != "collections" {
					return apiError(422, "invalid order table %q", p)
				}
				k.attr = k.attr[i+1:]
			}
			if k.attr != "modified_at" && k.attr != "uuid" {
				return apiError(422, "cannot order by %q", k.attr)
			}
			if len(f) == 2 {
				switch strings.ToLower(f[1]) {
				case "asc":
				case "desc":
					k.desc = true
				default:
					return apiError(422, "invalid order direction %q", p)
				}
			}
			order = append(order, k)
		}
	}
	limit := 100
	if l := vals.Get("limit"); l != "" {
		n, err := strconv.Atoi(l)
		if err != nil || n < 0 {
			return apiError(422, "invalid limit %q", l)
		}
		limit = n
	}
	asked := limit
	if a.maxPage > 0 && limit > a.maxPage {
		limit = a.maxPage
	}
	offset := 0
	if o := vals.Get("offset"); o != "" {
		n, err := strconv.Atoi(o)
		if err != nil || n < 0 {
			return apiError(422, "invalid offset %q", o)
		}
		offset = n
	}
	count := vals.Get("count")
	if count == "" {
		count = "exact"
	}
	if count != "exact" && count != "none" {
		return apiError(422, "invalid count %q", count)
	}
	var sel []string
	if s := vals.Get("select"); s != "" {
		if err := json.Unmarshal([]byte(s), &sel); err != nil {
			return apiError(422, "invalid select")
		}
		for _, s := range sel {
			if !collAttrs[s] {
				return apiError(422, "invalid attribute %q in select", s)
			}
		}
	}
	inclTrash, inclOld := truthy(vals.Get("include_trash")), truthy(vals.Get("include_old_versions"))

	var match []*simColl
	for _, c := range a.colls {
		if (c.trashed && !inclTrash) || (c.oldVersion && !inclOld) {
			continue
		}
		ok := true
		for _, f := range filters {
			var cmp int
			switch {
			case f.attr == "uuid" && f.isNull, f.attr == "modified_at" && f.isNull:
				// no row has a null uuid or modified_at in this model
				cmp = 1
			case f.attr == "uuid":
				cmp = strings.Compare(c.uuid, f.str)
			default:
				cmp = cmpInt(c.modifiedAt, f.tm)
			}
			if h, _ := opHolds(f.op, cmp); !h {
				ok = false
				break
			}
		}
		if ok {
			match = append(match, c)
		}
	}
	sort.SliceStable(match, func(i, j int) bool {
		x, y := match[i], match[j]
		for _, k := range order {
			var c int
			if k.attr == "uuid" {
				c = strings.Compare(x.uuid, y.uuid)
			} else {
				c = cmpInt(x.modifiedAt, y.modifiedAt)
			}
			if k.desc {
				c = -c
			}
			if c != 0 {
				return c < 0
			}
		}
		return x.uuid < y.uuid
	})
	avail := len(match)
	if offset > len(match) {
		offset = len(match)
	}
	page := match[offset:]
	if len(page) > limit {
		page = page[:limit]
	}
	if a.shortPages && len(page) > 1 && a.w.Chance("api short page", 150) {
		page = page[:1+a.w.Choose("api short page len", len(page)-1)]
		a.w.Probe("api-short-page")
	}
	items := make([]any, 0, len(page))
	var uu []string
	for _, c := range page {
		full := map[string]any{
			"kind": "arvados#collection", "uuid": c.uuid, "modified_at": time.Unix(0, c.modifiedAt).UTC().Format(apiTimeFmt),
			"created_at": time.Unix(0, c.modifiedAt).UTC().Format(apiTimeFmt), "portable_data_hash": c.pdh,
			"replication_desired": c.replDes, "storage_classes_desired": c.storedClasses(), "is_trashed": c.trashed,
			"version": 1, "name": "", "owner_uuid": "zzzzz-tpzed-000000000000000",
		}
		if c.oldVersion {
			full["current_version_uuid"] = "zzzzz-4zz18-currentversion0"
			full["version"] = 0
		} else {
			full["current_version_uuid"] = c.uuid
		}
		var it map[string]any
		switch {
		case a.ignoreSelect:
			it = full
			it["manifest_text"] = c.manifest
			it["unsigned_manifest_text"] = c.manifest
		case sel == nil:
			it = full // manifest_text only when explicitly selected
		default:
			it = map[string]any{"kind": "arvados#collection"}
			for _, s := range sel {
				switch s {
				case "manifest_text", "unsigned_manifest_text":
					it[s] = c.manifest
				default:
					it[s] = full[s]
				}
			}
		}
		if _, ok := it["storage_classes_desired"]; ok {
			a.toldClasses[c.uuid] = true
		}
		if _, ok := it["replication_desired"]; ok {
			a.toldRepl[c.uuid] = true
		}
		items = append(items, it)
		uu = append(uu, c.uuid)
		a.everSent[c.uuid] = true
	}
	resp := map[string]any{"kind": "arvados#collectionList", "items": items, "offset": offset, "limit": limit}
	if count == "exact" {
		resp["items_available"] = avail
	}
	if asked > 0 {
		a.pagesServed++
		a.lastPage = uu
		// probes about the shape of this page
		if n := offset + len(page); len(page) > 0 && n < len(match) && match[n].modifiedAt == page[len(page)-1].modifiedAt {
			a.w.Probe("page-boundary-inside-tie")
		}
		for _, f := range filters {
			if f.attr == "modified_at" && f.op == "=" && !f.isNull {
				a.w.Probe("exact-timestamp-cursor")
			}
		}
	}
	a.w.Logf("api collections: filters=%s order=%q limit=%d(asked %d) count=%s -> %d items %v avail=%d", vals.Get("filters"), vals.Get("order"), limit, asked, count, len(page), shortUUIDs(uu), avail)
	return jsonReply(200, resp)
}

func shortUUIDs(u []string) []string {
	r := make([]string, len(u))
	for i, s := range u {
		if len(s) > 12 {
			s = s[12:]
		}
		r[i] = s
	}
	return r
}

// ---- the whole cluster --------------------------------------------------------------------

type simBlock struct {
	hash string
	size int
}

func (b *simBlock) sized() string { return fmt.Sprintf("%s+%d", b.hash, b.size) }

type simCluster struct {
	w       *vsim.World
	net     *vsim.Net
	api     *simAPI
	ttl     int64 // seconds (discovery document blobSignatureTtl)
	defRepl int
	svcs    []*simSrv
	byHost  map[string]*simSrv
	devs    []*simDevice
	blocks  []*simBlock
	ksCap   int // keep_services page cap (0 = none)
	userOK  bool

	reqN     int
	recv     []*recvList // every trash and pull list received, in order
	ddSentAt time.Time
	// intercept lets a scenario replace the reply of one request (fault injection). kind is
	// one of keep_services, user, discovery, collections, mounts, index, trash, pull.
	intercept func(kind string, r *vsim.NetRequest, rep *vsim.NetReply) *vsim.NetReply
	kinds     []string // kind of request #i (1-based: kinds[i-1])
}

func newSimCluster(w *vsim.World) *simCluster {
	c := &simCluster{w: w, byHost: map[string]*simSrv{}, userOK: true}
	c.api = &simAPI{w: w, host: "api.sim", everSent: map[string]bool{}, toldClasses: map[string]bool{}, toldRepl: map[string]bool{}}
	c.net = vsim.NewNet(w, c.handle)
	return c
}

func (c *simCluster) handle(r *vsim.NetRequest) *vsim.NetReply {
	c.reqN++
	kind, rep := c.dispatch(r)
	c.kinds = append(c.kinds, kind)
	if rep != nil && rep.Latency == 0 {
		rep.Latency = time.Duration(1+c.w.Choose("latency", 8)) * time.Millisecond
	}
	if c.intercept != nil {
		rep = c.intercept(kind, r, rep)
	}
	return rep
}

func (c *simCluster) dispatch(r *vsim.NetRequest) (string, *vsim.NetReply) {
	w := c.w
	if r.Host == c.api.host {
		switch r.Path {
		case "/arvados/v1/keep_services":
			_, vals, _ := requestParams(r)
			off, _ := strconv.Atoi(vals.Get("offset"))
			if off > len(c.svcs) {
				off = len(c.svcs)
			}
			page := c.svcs[off:]
			if c.ksCap > 0 && len(page) > c.ksCap {
				page = page[:c.ksCap]
				w.Probe("keep-services-paged")
			}
			items := []any{}
			for _, s := range page {
				items = append(items, map[string]any{"uuid": s.uuid, "service_host": s.host, "service_port": s.port,
					"service_ssl_flag": s.ssl, "service_type": s.typ, "read_only": s.readOnly, "kind": "arvados#keepService"})
			}
			w.Logf("req #%d api keep_services offset=%d -> %d of %d", c.reqN, off, len(page), len(c.svcs))
			return "keep_services", jsonReply(200, map[string]any{"kind": "arvados#keepServiceList", "items": items, "items_available": len(c.svcs), "offset": off, "limit": 100})
		case "/arvados/v1/users/current":
			w.Logf("req #%d api users/current", c.reqN)
			return "user", jsonReply(200, map[string]any{"uuid": "zzzzz-tpzed-000000000000000", "is_admin": c.userOK, "is_active": true})
		case "/discovery/v1/apis/arvados/v1/rest":
			w.Logf("req #%d api discovery", c.reqN)
			c.ddSentAt = time.Now()
			return "discovery", jsonReply(200, map[string]any{"defaultCollectionReplication": c.defRepl, "blobSignatureTtl": c.ttl, "basePath": "/arvados/v1/"})
		case "/arvados/v1/collections":
			w.Logf("req #%d api collections %s", c.reqN, r.Method)
			return "collections", c.api.listCollections(r)
		}
		w.Logf("req #%d api UNKNOWN %s %s", c.reqN, r.Method, r.Path)
		return "unknown", apiError(404, "no route %s", r.Path)
	}
	s := c.byHost[r.Host]
	if s == nil {
		w.Logf("req #%d to unknown host %s %s", c.reqN, r.Host, r.Path)
		return "unknown", &vsim.NetReply{Err: vsim.ErrConnRefused}
	}
	switch {
	case r.Method == "GET" && r.Path == "/mounts":
		var out []any
		for _, m := range s.mounts {
			mm := map[string]any{"uuid": m.uuid, "device_id": m.dev.deviceID, "read_only": m.readOnly, "replication": m.dev.repl}
			if len(m.dev.classes) > 0 {
				sc := map[string]bool{}
				for _, cl := range m.dev.classes {
					sc[cl] = true
				}
				mm["storage_classes"] = sc
			}
			out = append(out, mm)
		}
		w.Logf("req #%d %s GET /mounts -> %d", c.reqN, s.host, len(out))
		return "mounts", jsonReply(200, out)
	case r.Method == "GET" && strings.HasPrefix(r.Path, "/mounts/") && strings.HasSuffix(r.Path, "/blocks"):
		uuid := strings.TrimSuffix(strings.TrimPrefix(r.Path, "/mounts/"), "/blocks")
		var m *simMount
		for _, x := range s.mounts {
			if x.uuid == uuid {
				m = x
			}
		}
		if m == nil {
			w.Logf("req #%d %s index of unknown mount %s", c.reqN, s.host, uuid)
			return "index", &vsim.NetReply{Status: 404, Body: []byte("mount not found\n")}
		}
		body := indexText(m.dev)
		w.Logf("req #%d %s index mount %s (%s) -> %d entries", c.reqN, s.host, uuid, m.dev.key, len(m.dev.blocks))
		return "index", &vsim.NetReply{Status: 200, Body: []byte(body), NoLength: true, Header: http.Header{"Content-Type": {"text/plain"}}}
	case r.Method == "PUT" && (r.Path == "/trash" || r.Path == "/pull"):
		rl := &recvList{seq: c.reqN, at: time.Now(), srv: s, kind: r.Path[1:]}
		var err error
		if rl.kind == "trash" {
			err = json.Unmarshal(r.Body, &rl.trash)
			sort.Slice(rl.trash, func(i, j int) bool {
				a, b := rl.trash[i], rl.trash[j]
				if a.Locator != b.Locator {
					return a.Locator < b.Locator
				}
				if a.MountUUID != b.MountUUID {
					return a.MountUUID < b.MountUUID
				}
				return a.BlockMtime < b.BlockMtime
			})
			w.Logf("req #%d %s PUT /trash %d entries %s", c.reqN, s.host, len(rl.trash), canonTrash(rl.trash))
		} else {
			err = json.Unmarshal(r.Body, &rl.pull)
			sort.Slice(rl.pull, func(i, j int) bool {
				a, b := rl.pull[i], rl.pull[j]
				if a.Locator != b.Locator {
					return a.Locator < b.Locator
				}
				if a.MountUUID != b.MountUUID {
					return a.MountUUID < b.MountUUID
				}
				return strings.Join(a.Servers, ",") < strings.Join(b.Servers, ",")
			})
			w.Logf("req #%d %s PUT /pull %d entries %s", c.reqN, s.host, len(rl.pull), canonPull(rl.pull))
		}
		if err != nil {
			w.Logf("req #%d %s malformed %s list: %v", c.reqN, s.host, rl.kind, err)
			return rl.kind, &vsim.NetReply{Status: 400, Body: []byte("bad request\n")}
		}
		c.recv = append(c.recv, rl)
		return rl.kind, &vsim.NetReply{Status: 200, Body: []byte("Received " + strconv.Itoa(len(rl.trash)+len(rl.pull)) + " requests\n")}
	}
	w.Logf("req #%d %s UNKNOWN %s %s", c.reqN, s.host, r.Method, r.Path)
	return "unknown", &vsim.NetReply{Status: 404, Body: []byte("not found\n")}
}

func canonTrash(l []trashEnt) string {
	var s []string
	for _, e := range l {
		s = append(s, fmt.Sprintf("%s@%d/%s", e.Locator[:min(6, len(e.Locator))], e.BlockMtime, tail(e.MountUUID, 4)))
	}
	return "[" + strings.Join(s, " ") + "]"
}

func canonPull(l []pullEnt) string {
	var s []string
	for _, e := range l {
		s = append(s, fmt.Sprintf("%s<-%s/%s", e.Locator[:min(6, len(e.Locator))], strings.Join(e.Servers, ","), tail(e.MountUUID, 4)))
	}
	return "[" + strings.Join(s, " ") + "]"
}

func tail(s string, n int) string {
	if len(s) > n {
		return s[len(s)-n:]
	}
	return s
}

// indexText renders the device's content the way keepstore's index handlers do:
// "hash+size mtime_ns\n" per block, then one blank line.
func indexText(d *simDevice) string {
	var sb strings.Builder
	for _, h := range vsim.SortedKeys(d.blocks) {
		r := d.blocks[h]
		fmt.Fprintf(&sb, "%s+%d %d\n", h, r.size, r.mtime)
	}
	sb.WriteString("\n")
	return sb.String()
}

// ---- helpers shared by scenarios -------------------------------------------------------------

func randID(r *vsim.Rand, n int) string {
	const al = "0123456789abcdefghijklmnopqrstuvwxyz"
	b := make([]byte, n)
	for i := range b {
		b[i] = al[r.Intn(len(al))]
	}
	return string(b)
}

func pdhOf(manifest string) string { return fmt.Sprintf("%s+%d", md5hex(manifest), len(manifest)) }

func manifestFor(blocks []*simBlock) string {
	if len(blocks) == 0 {
		return ""
	}
	var sb strings.Builder
	sb.WriteString(".")
	total := 0
	for _, b := range blocks {
		sb.WriteString(" " + b.sized())
		total += b.size
	}
	fmt.Fprintf(&sb, " 0:%d:f\n", total)
	return sb.String()
}

// trapTransport flags any HTTP request that bypasses the simulated network.
type trapTransport struct{ w *vsim.World }

func (t trapTransport) RoundTrip(req *http.Request) (*http.Response, error) {
	t.w.Infra("request escaped the simulated transport: %s %s", req.Method, req.URL)
	return nil, io.ErrClosedPipe
}

// canonTransport sits between the code under test and the simulated network.
// ComputeChangeSets fills the trash and pull lists from a GOMAXPROCS-sized worker pool, so
// the ORDER of entries in a PUT /trash or /pull body is not a function of the seed. The
// order carries no meaning for keepstore (it is a set of requests), therefore the body is
// sorted before the simulated network sees it: request identity, logs and oracles then
// depend only on the set.
type canonTransport struct{ net *vsim.Net }

func (t canonTransport) RoundTrip(req *http.Request) (*http.Response, error) {
	if req.Method == "PUT" && req.Body != nil && (req.URL.Path == "/trash" || req.URL.Path == "/pull") {
		raw, err := io.ReadAll(req.Body)
		req.Body.Close()
		if err != nil {
			return nil, err
		}
		var l []json.RawMessage
		if json.Unmarshal(raw, &l) == nil && l != nil {
			sort.Slice(l, func(i, j int) bool { return string(l[i]) < string(l[j]) })
			if b, err := json.Marshal(l); err == nil {
				raw = b
			}
		}
		req = req.Clone(req.Context())
		req.Body = io.NopCloser(strings.NewReader(string(raw)))
		req.ContentLength = int64(len(raw))
	}
	return t.net.RoundTrip(req)
}
