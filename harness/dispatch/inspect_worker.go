//go:build verif

package worker

import (
	"sort"

	"git.arvados.org/arvados.git/lib/cloud"
)

// VerifWorker is a read-only copy of one worker's bookkeeping. It is taken by the
// simulation's root goroutine at quiescence (every task of the bubble is durably
// blocked), so no lock is needed and none is taken: the inspector can never perturb the
// schedule of the code under test.
type VerifWorker struct {
	ID       cloud.InstanceID
	Type     string
	State    State
	Idle     IdleBehavior
	Running  []string
	Starting []string
}

// VerifSnapshot lists the pool's workers sorted by instance id.
func VerifSnapshot(wp *Pool) (ws []VerifWorker, loaded bool) {
	for id, wkr := range wp.workers {
		v := VerifWorker{ID: id, Type: wkr.instType.Name, State: wkr.state, Idle: wkr.idleBehavior}
		for u := range wkr.running {
			v.Running = append(v.Running, u)
		}
		for u := range wkr.starting {
			v.Starting = append(v.Starting, u)
		}
		sort.Strings(v.Running)
		sort.Strings(v.Starting)
		ws = append(ws, v)
	}
	sort.Slice(ws, func(i, j int) bool { return ws[i].ID < ws[j].ID })
	return ws, wp.loaded
}

// VerifExited lists the containers for which the pool still keeps an "exited" placeholder.
func VerifExited(wp *Pool) []string {
	var r []string
	for u := range wp.exited {
		r = append(r, u)
	}
	sort.Strings(r)
	return r
}
