//go:build go1.26

package dispatchcloud

import (
	"errors"
	"fmt"
	"io"
	"io/ioutil"
	"strings"
	"time"

	"git.arvados.org/arvados.git/lib/cloud"
	"git.arvados.org/arvados.git/sdk/go/arvados"
)

// ---- VM model ----------------------------------------------------------------------------
//
// The process table of a VM is GROUND TRUTH. Command semantics follow
// lib/crunchrun/background.go: --detach takes a per-uuid lock file (a second detach for
// a uuid whose lock is held on this VM fails), --list prints "uuid" for live processes,
// "uuid stale" when crunch-run is dead but something (arv-mount) still holds the lock,
// and "broken"; --kill sends the signal and waits up to 1 s for the process to die.

type simProc struct {
	pid       int
	uuid      string
	vm        *simVM
	live      bool // the crunch-run process exists
	lockHeld  bool // the per-uuid lock file is held (by crunch-run or a leftover arv-mount)
	running   bool // it has moved the container to Running
	started   time.Time
	startLag  time.Duration
	runDur    time.Duration
	crashAt   int // 0 no crash, 1 before Running, 2 while Running
	stuckTill time.Time
	stuck     bool // ignores SIGTERM (forever if stuckTill is zero)
	termLag   time.Duration
	dieAt     time.Time
	exitLag   time.Duration // arv-mount exit lag after crunch-run exits
	deadlock  bool          // arv-mount never exits
	unlockAt  time.Time
	kills     int
	killTried int // kill commands that reached the VM while it was unresponsive
	byInc     int
	obligFrom time.Time // since when the dispatcher owes this process a kill (see afterStep)
}

type simVM struct {
	s              *sim
	in             *simInst
	bootAt         time.Time
	neverBoots     bool
	brokenAt       time.Time // zero: never
	reportBrokenAt time.Time // zero: never
	crunchMissing  bool
	unrespFrom     time.Time // commands hang and fail inside this window; processes keep running
	unrespTill     time.Time
	procs          []*simProc
	dead           bool
	healthy        bool // created with no fault at all
}

func newSimVM(s *sim, in *simInst) *simVM {
	now := time.Now()
	vm := &simVM{s: s, in: in, healthy: true}
	vm.bootAt = now.Add(s.lat("vm-boot", 2*time.Second, 500*time.Millisecond, 10*time.Second, 45*time.Second))
	if s.chance("vm-never-boots") {
		vm.neverBoots, vm.healthy = true, false
	}
	if s.chance("vm-broken-after") {
		vm.brokenAt = vm.bootAt.Add(s.lat("vm-broken-at", 5*time.Second, 30*time.Second, 120*time.Second))
		vm.healthy = false
	}
	if s.chance("vm-report-broken") {
		vm.reportBrokenAt = vm.bootAt.Add(s.lat("vm-report-broken-at", time.Millisecond, 10*time.Second, 60*time.Second))
		vm.healthy = false
	}
	if s.chance("vm-crunch-run-missing") {
		vm.crunchMissing, vm.healthy = true, false
	}
	return vm
}

func (vm *simVM) describe() string {
	d := fmt.Sprint(vm.bootAt.Sub(time.Now()))
	if vm.neverBoots {
		d = "never"
	}
	if !vm.brokenAt.IsZero() {
		d += " broken-at+" + fmt.Sprint(vm.brokenAt.Sub(time.Now()))
	}
	if !vm.reportBrokenAt.IsZero() {
		d += " reports-broken-at+" + fmt.Sprint(vm.reportBrokenAt.Sub(time.Now()))
	}
	if vm.crunchMissing {
		d += " crunch-run-missing"
	}
	return d
}

func (vm *simVM) exit(p *simProc, now time.Time, why string) {
	if !p.live {
		return
	}
	p.live = false
	if p.deadlock {
		vm.s.w.Probe("arv-mount-deadlock")
	} else if p.exitLag <= 0 {
		p.lockHeld = false
	} else {
		p.unlockAt = now.Add(p.exitLag)
	}
	vm.s.logf("vm %s pid %d %s exits (%s) lock-held=%v", vm.in.id, p.pid, shortUUID(p.uuid), why, p.lockHeld)
}

func (vm *simVM) reap(now time.Time) {
	for _, p := range vm.procs {
		if p.live && !p.dieAt.IsZero() && !p.dieAt.After(now) {
			vm.exit(p, p.dieAt, "died")
		}
		if !p.live && p.lockHeld && !p.deadlock && !p.unlockAt.After(now) {
			p.lockHeld = false
		}
	}
}

func (vm *simVM) die() {
	vm.dead = true
	for _, p := range vm.procs {
		if p.live {
			vm.s.logf("vm %s pid %d %s dies with its VM", vm.in.id, p.pid, shortUUID(p.uuid))
		}
		p.live, p.lockHeld = false, false
	}
}

func (vm *simVM) lockHolder(uuid string) *simProc {
	for _, p := range vm.procs {
		if p.uuid == uuid && p.lockHeld {
			return p
		}
	}
	return nil
}

func (vm *simVM) responsive(now time.Time) bool {
	return !vm.dead && !(now.After(vm.unrespFrom) && now.Before(vm.unrespTill))
}

// liveProcs returns every live crunch-run process for uuid on any instance.
func (s *sim) liveProcs(uuid string) []*simProc {
	var r []*simProc
	for _, in := range s.cloud.insts {
		if in.gone {
			continue
		}
		for _, p := range in.vm.procs {
			if p.live && p.uuid == uuid {
				r = append(r, p)
			}
		}
	}
	return r
}

type execRes struct {
	stdout, stderr string
	err            error
}

var errExit1 = errors.New("Process exited with status 1")
var errExit2 = errors.New("Process exited with status 2")
var errSSH = errors.New("simulated ssh: connection timed out")

// exec runs on the root goroutine at the instant the command reaches the VM.
func (vm *simVM) exec(inc *incarnation, cmd string, stdin []byte) (time.Duration, execRes) {
	s := vm.s
	s.cloud.reap()
	now := time.Now()
	lat := s.lat("ssh-lat", 10*time.Millisecond, 100*time.Millisecond, 600*time.Millisecond)
	if vm.dead {
		return s.lat("ssh-dead-lat", time.Second, 10*time.Second), execRes{err: errSSH}
	}
	if !vm.responsive(now) {
		if strings.Contains(cmd, " --kill ") {
			// the dispatcher did try to kill: if the VM's fault makes it give up and drain the
			// worker instead (remoteRunner.Kill's deadline), that is the documented fallback,
			// not a missing kill
			f := strings.Fields(cmd)
			if p := vm.lockHolder(f[len(f)-1]); p != nil {
				p.killTried++
			}
		}
		s.w.Probe("vm-command-during-unresponsive-window")
		d := vm.unrespTill.Sub(now)
		if max := s.lat("ssh-hang", 5*time.Second, 30*time.Second, 120*time.Second); d > max {
			d = max
		}
		return d, execRes{err: errSSH}
	}
	if vm.neverBoots || now.Before(vm.bootAt) {
		return lat, execRes{stderr: "stub is booting\n", err: errExit1}
	}
	if !vm.brokenAt.IsZero() && !now.Before(vm.brokenAt) {
		return lat, execRes{stderr: "cannot fork\n", err: errExit2}
	}
	runner := s.cluster.Containers.CrunchRunCommand
	if vm.crunchMissing && strings.Contains(cmd, runner) {
		return lat, execRes{stderr: runner + ": command not found\n", err: errExit1}
	}
	bootProbe := s.k.BootProbe
	if bootProbe == "" {
		bootProbe = "true"
	}
	switch {
	case cmd == bootProbe:
		return lat, execRes{}
	case cmd == runner+" --list":
		var out strings.Builder
		for _, p := range vm.procs {
			if p.live {
				out.WriteString(p.uuid + "\n")
			} else if p.lockHeld {
				out.WriteString(p.uuid + " stale\n")
			}
		}
		if !vm.reportBrokenAt.IsZero() && !now.Before(vm.reportBrokenAt) {
			out.WriteString("broken\n")
		}
		return lat, execRes{stdout: out.String()}
	case strings.HasPrefix(cmd, runner+" --detach --stdin-env "):
		f := strings.Fields(cmd)
		uuid := strings.Trim(f[len(f)-1], "'")
		if !strings.Contains(string(stdin), "ARVADOS_API_TOKEN") {
			return lat, execRes{stderr: "ARVADOS_API_TOKEN missing from stdin\n", err: errExit1}
		}
		if h := vm.lockHolder(uuid); h != nil {
			s.w.Probe("vm-second-detach-refused-by-lockfile")
			return lat, execRes{stderr: "lock /var/lock/crunch-run-" + uuid + ".lock: resource temporarily unavailable\n", err: errExit1}
		}
		p := vm.spawn(inc, uuid, now)
		return lat, execRes{stdout: fmt.Sprintf("{\"UUID\":%q,\"PID\":%d}\n", uuid, p.pid)}
	case strings.HasPrefix(cmd, runner+" --kill "):
		f := strings.Fields(cmd)
		uuid := f[len(f)-1]
		p := vm.lockHolder(uuid)
		if p == nil || !p.live {
			return lat, execRes{stderr: uuid + ": not running\n"}
		}
		p.kills++
		s.w.Probe("vm-sigterm-delivered")
		if p.stuck && (p.stuckTill.IsZero() || now.Before(p.stuckTill)) {
			s.w.Probe("vm-sigterm-ignored")
			return time.Second + lat, execRes{stderr: uuid + ": sent signal 15 but process is still alive\n", err: errExit1}
		}
		if p.running {
			// crunch-run stops the container and records the final state before it exits
			s.api.crunchSetFinal(uuid, arvados.ContainerStateCancelled)
			p.running = false
		}
		if p.termLag < time.Second {
			vm.exit(p, now, "SIGTERM")
			return p.termLag + lat, execRes{stderr: uuid + ": process already finished\n"}
		}
		if p.dieAt.IsZero() || p.dieAt.After(now.Add(p.termLag)) {
			p.dieAt = now.Add(p.termLag)
		}
		return time.Second + lat, execRes{stderr: uuid + ": sent signal 15 but process is still alive\n", err: errExit1}
	}
	return lat, execRes{stderr: fmt.Sprintf("%q: command not found\n", cmd), err: errExit1}
}

// spawn creates a crunch-run process: the instant at which C14's process-table oracle is evaluated.
func (vm *simVM) spawn(inc *incarnation, uuid string, now time.Time) *simProc {
	s := vm.s
	w := s.w
	others := s.liveProcs(uuid)
	p := &simProc{pid: len(vm.procs) + 1, uuid: uuid, vm: vm, live: true, lockHeld: true, started: now, byInc: inc.n}
	p.startLag = s.lat("proc-start-lag", 300*time.Millisecond, 20*time.Millisecond, 3*time.Second, 30*time.Second, 150*time.Second)
	p.runDur = s.lat("proc-run", 2*time.Second, 200*time.Millisecond, 10*time.Second, 40*time.Second, 300*time.Second, 900*time.Second)
	if !s.long && len(s.api.uuids) > 12 && p.runDur > 40*time.Second {
		p.runDur = 40 * time.Second // many containers: keep the quick tier's runs short
	}
	if s.o.prop == "C15" && len(s.api.uuids)+s.toArrive > 6 {
		// the liveness bound B is a multiple of the fault-free need: keep that need small
		if p.runDur > 40*time.Second {
			p.runDur = 40 * time.Second
		}
		if p.startLag > 30*time.Second {
			p.startLag = 30 * time.Second
		}
	}
	if s.chance("proc-crash-early") {
		p.crashAt = 1
	} else if s.chance("proc-crash-running") {
		p.crashAt = 2
	}
	if s.chance("proc-unkillable") {
		p.stuck = true
		if w.Choose("proc-stuck-forever", 2) == 0 {
			p.stuckTill = now.Add(s.lat("proc-stuck-for", 10*time.Second, 60*time.Second, 200*time.Second))
		}
	}
	p.termLag = s.lat("proc-term-lag", 10*time.Millisecond, 400*time.Millisecond, 3*time.Second, 20*time.Second)
	p.exitLag = s.lat("arv-mount-exit-lag", time.Millisecond, 500*time.Millisecond, 4*time.Second, 15*time.Second)
	if p.exitLag <= time.Millisecond {
		p.exitLag = 0
	}
	if s.chance("arv-mount-deadlock") {
		p.deadlock = true
	}
	vm.procs = append(vm.procs, p)
	s.everStarted[uuid]++
	w.Probe("crunch-run-started")
	s.logf("vm %s start pid %d %s start-lag=%s run=%s crash=%d stuck=%v (dispatcher %d)", vm.in.id, p.pid, shortUUID(uuid), p.startLag, p.runDur, p.crashAt, p.stuck, inc.n)
	s.startLog = append(s.startLog, fmt.Sprintf("%s: crunch-run for %s started on %s (pid %d) by dispatcher %d", time.Since(s.t0).Round(time.Millisecond), shortUUID(uuid), vm.in.id, p.pid, inc.n))

	// ---- C14: at most one live crunch-run process per container across all instances
	if len(others) > 0 {
		o := others[0]
		sig := "two-live-processes"
		if s.staleUnlock[uuid] && s.staleUnlockEarly[uuid] {
			// not the give-up path: every worker had left state Unknown, yet the process was not known
			sig = "fixStaleLocks-released-a-lock-before-its-timeout-while-process-alive"
		} else if s.staleUnlock[uuid] {
			sig = "fixStaleLocks-gave-up-while-process-alive"
		} else if o.byInc != inc.n && !inc.listed[string(o.vm.in.id)] {
			// the new dispatcher has not yet received a single crunch-run --list answer from the
			// instance on which the previous dispatcher's process is still alive
			sig = "restarted-dispatcher-starts-container-before-probing-the-worker-that-still-runs-it"
		}
		s.viol("C14", "two-live-crunch-run-processes", sig,
			"container %s: crunch-run pid %d started on %s by dispatcher %d while pid %d on %s (started %s ago by dispatcher %d, running=%v, instance terminating=%v) is still alive; history: %s; api: %s",
			uuid, p.pid, vm.in.id, inc.n, o.pid, o.vm.in.id, now.Sub(o.started).Round(time.Millisecond), o.byInc, o.running, o.vm.in.terminating(),
			strings.Join(s.historyOf(uuid), " | "), strings.Join(s.api.ctrs[uuid].hist, ", "))
	}
	if ac := s.api.ctrs[uuid]; ac != nil && ac.unsat {
		s.viol("C16", "unsatisfiable-container-started", "", "container %s cannot be satisfied by any configured type but crunch-run was started on %s", uuid, vm.in.id)
	}
	key := fmt.Sprintf("proc/%s/%d", vm.in.id, p.pid)
	w.Spawn(key, func() { p.run(s, key) })
	return p
}

func (s *sim) historyOf(uuid string) []string {
	var r []string
	su := shortUUID(uuid)
	for _, l := range s.startLog {
		if strings.Contains(l, " "+su+" ") {
			r = append(r, l)
		}
	}
	return r
}

// run is the life of one simulated crunch-run process (a task of its own): load the
// image, move the container to Running with the dispatcher's token, run, finalize, exit.
func (p *simProc) run(s *sim, key string) {
	w := s.w
	time.Sleep(p.startLag)
	cont := w.Park("proc-step", key, nil, func() any {
		s.cloud.reap()
		now := time.Now()
		if !p.live || !p.dieAt.IsZero() {
			return false
		}
		if p.crashAt == 1 {
			p.vm.exit(p, now, "crash before Running")
			return false
		}
		if !s.api.crunchSetRunning(p.uuid) {
			p.vm.exit(p, now, "state=Running update rejected")
			return false
		}
		p.running = true
		if p.crashAt == 2 {
			p.dieAt = now.Add(p.runDur / 2)
		}
		return true
	}).(bool)
	if !cont {
		return
	}
	time.Sleep(p.runDur)
	w.Park("proc-step", key, nil, func() any {
		s.cloud.reap()
		if !p.live || !p.dieAt.IsZero() {
			return nil
		}
		s.api.crunchSetFinal(p.uuid, arvados.ContainerStateComplete)
		p.running = false
		p.vm.exit(p, time.Now(), "finished")
		return nil
	})
}

// simExecutor is the worker.Executor bound to one instance.
type simExecutor struct {
	s   *sim
	inc *incarnation
	in  *simInst
}

func (x *simExecutor) SetTarget(cloud.ExecutorTarget) {}
func (x *simExecutor) Close()                         {}

func (x *simExecutor) Execute(env map[string]string, cmd string, stdin io.Reader) (stdout, stderr []byte, err error) {
	var in []byte
	if stdin != nil {
		in, _ = ioutil.ReadAll(stdin)
	}
	key := string(x.in.id) + " " + cmdKey(cmd)
	r := x.s.call(x.inc, "ssh", key, func() (time.Duration, any) {
		lat, r := x.in.vm.exec(x.inc, cmd, in)
		return lat, r
	}, func(res any) {
		r := res.(execRes)
		if r.err == nil && strings.HasSuffix(cmd, " --list") {
			x.inc.listed[string(x.in.id)] = true
		}
		if strings.Contains(r.stdout, "broken\n") && strings.HasSuffix(cmd, " --list") {
			if _, ok := x.inc.brokenSeen[string(x.in.id)]; !ok {
				x.inc.brokenSeen[string(x.in.id)] = time.Now()
			}
		}
	}).(execRes)
	return []byte(r.stdout), []byte(r.stderr), r.err
}

func cmdKey(cmd string) string {
	switch {
	case strings.Contains(cmd, "--list"):
		return "list"
	case strings.Contains(cmd, "--detach"):
		f := strings.Fields(cmd)
		return "detach " + shortUUID(strings.Trim(f[len(f)-1], "'"))
	case strings.Contains(cmd, "--kill"):
		f := strings.Fields(cmd)
		return "kill " + shortUUID(f[len(f)-1])
	}
	return "probe"
}
