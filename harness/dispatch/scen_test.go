//go:build go1.26

package dispatchcloud

import (
	"fmt"
	"strings"
	"time"

	"git.arvados.org/arvados.git/lib/cloud"
	"git.arvados.org/arvados.git/lib/dispatchcloud/worker"
	"git.arvados.org/arvados.git/sdk/go/arvados"
	"verif.local/vsim"
)

var allFaultKinds = []string{
	"api-fail", "api-response-lost", "api-slow",
	"cloud-rate-limit", "cloud-quota-error", "cloud-create-fail", "cloud-create-response-lost", "cloud-list-fail",
	"cloud-stale-tags", "cloud-settags-fail", "cloud-destroy-fail", "cloud-destroy-response-lost",
	"vm-never-boots", "vm-broken-after", "vm-report-broken", "vm-crunch-run-missing",
	"proc-crash-early", "proc-crash-running", "proc-unkillable", "arv-mount-deadlock",
	"dispatcher-stall",
}

var allEventKinds = []string{
	"new-container", "user-priority-0", "user-priority-back", "user-cancel",
	"admin-hold", "admin-drain", "admin-run",
	"vm-unresponsive", "vm-break", "vm-report-broken", "proc-crash", "cloud-vanish", "restart",
}

type scenOpts struct {
	prop        string
	maxTypes    int
	richTypes   bool
	boundaryPM  int // permille of containers drawn around type boundaries
	faultFree   bool
	restartPM   int
	quietPhase  bool
	pureSamples int
}

func newSim(w *vsim.World, spec *vsim.Spec, o scenOpts) *sim {
	s := &sim{w: w, spec: spec, t0: time.Now(), rate: map[string]int{}, everStarted: map[string]int{}, staleUnlock: map[string]bool{}, staleUnlockEarly: map[string]bool{},
		evOn: map[string]bool{}, origPrio: map[string]int64{}, o: o}
	w.GateSpawn = true // children of `go` statements start at a scheduler decision, never concurrently with the parent
	// thorough tier: one run in four is long (2 h horizon, up to 120 containers, long processes);
	// the others keep the quick tier's shape, because many short and different runs find more
	s.long = spec.Tier == "thorough" && w.Choose("long-run", 4) == 3
	if s.long {
		w.Probe("long-run")
	}
	s.k = drawKnobs(w)
	k := s.k
	s.cluster = &arvados.Cluster{ClusterID: "zzzzz", SystemRootToken: "simroot"}
	cv := &s.cluster.Containers.CloudVMs
	cv.BootProbeCommand = k.BootProbe
	cv.ImageID = "sim-image"
	cv.MaxProbesPerSecond = k.MaxProbesPerSecond
	cv.MaxConcurrentInstanceCreateOps = k.MaxConcurrentCreate
	cv.PollInterval = arvados.Duration(k.PollInterval)
	cv.ProbeInterval = arvados.Duration(k.ProbeInterval)
	cv.SyncInterval = arvados.Duration(k.SyncInterval)
	cv.TimeoutBooting = arvados.Duration(k.TimeoutBooting)
	cv.TimeoutIdle = arvados.Duration(k.TimeoutIdle)
	cv.TimeoutProbe = arvados.Duration(k.TimeoutProbe)
	cv.TimeoutShutdown = arvados.Duration(k.TimeoutShutdown)
	cv.TimeoutSignal = arvados.Duration(k.TimeoutSignal)
	cv.TimeoutStaleRunLock = arvados.Duration(k.TimeoutStaleRunLock)
	cv.TimeoutTERM = arvados.Duration(k.TimeoutTERM)
	cv.TagKeyPrefix = []string{"", "Arvados"}[w.Choose("k-tagprefix", 2)]
	s.cluster.Containers.CrunchRunCommand = "crunch-run"
	s.cluster.Containers.CrunchRunArgumentsList = [][]string{nil, {"--foo", "it's"}}[w.Choose("k-runner-args", 2)]
	s.cluster.Containers.StaleLockTimeout = arvados.Duration(k.StaleLockTime)
	s.api = newAPIModel(s)
	s.cloud = newCloudModel(s)
	s.genTypes(o.maxTypes, o.richTypes)
	// swarm: every run enables its own subset of fault kinds at its own rates
	if !o.faultFree && w.Choose("fault-free-run", 8) != 7 {
		level := []int{30, 100, 250}[w.Choose("fault-level", 3)]
		for _, f := range allFaultKinds {
			if w.Choose("fault-on "+f, 3) == 1 {
				s.rate[f] = level
			}
		}
		for _, e := range allEventKinds {
			if w.Choose("event-on "+e, 2) == 1 {
				s.evOn[e] = true
			}
		}
		s.faultsOn = true
	}
	s.evOn["new-container"] = true
	s.logf("knobs %+v faults %v events %v", k, s.rate, sortedKeysB(s.evOn))
	return s
}

func sortedKeysB(m map[string]bool) []string {
	var r []string
	for _, k := range sortedKeys(m) {
		if m[k] {
			r = append(r, k)
		}
	}
	return r
}

// viol raises a violation only for the property that owns the clause; the same condition
// met while another property of the harness is being checked is counted as a probe.
func (s *sim) viol(prop, clause, sig, format string, args ...any) {
	if s.spec.Prop == prop {
		s.w.ViolationSig(prop+"/"+clause, sig, format, args...)
	} else {
		s.w.Probe("clause-of-" + prop + "-violated:" + clause)
	}
}

func isFinal(st arvados.ContainerState) bool {
	return st == arvados.ContainerStateComplete || st == arvados.ContainerStateCancelled
}

func has(l []string, u string) bool {
	for _, x := range l {
		if x == u {
			return true
		}
	}
	return false
}

// afterStep runs on the root at quiescence before every scheduler step.
func (s *sim) afterStep() {
	s.cloud.reap()
	inc := s.inc
	if inc == nil || inc.dead || inc.pool == nil {
		return
	}
	now := time.Now()
	ws, _ := worker.VerifSnapshot(inc.pool)
	cur := make(map[cloud.InstanceID]worker.VerifWorker, len(ws))
	for _, v := range ws {
		cur[v.ID] = v
		prev, had := inc.prevSnap[v.ID]
		for _, u := range v.Starting {
			if had && has(prev.Starting, u) {
				continue
			}
			// ---- C14: a start decision has just been taken for container u on worker v.ID
			s.w.Probe("start-on-worker-checked")
			if !had {
				s.viol("C14", "start-on-unknown-instance", "", "container %s was started on %s, which the pool did not have before the decision", u, v.ID)
			} else if prev.State != worker.StateIdle || prev.Idle != worker.IdleBehaviorRun {
				s.viol("C14", "start-on-instance-not-idle-and-run", fmt.Sprintf("%s/%s", prev.State, prev.Idle),
					"container %s was started on instance %s whose pool state immediately before the decision was state=%s idle-behavior=%s (must be idle/run)", u, v.ID, prev.State, prev.Idle)
			}
			if t, ok := inc.brokenSeen[string(v.ID)]; ok && now.Sub(t) > 2*s.k.ProbeInterval+5*time.Second {
				s.viol("C15", "container-given-to-instance-that-reported-broken", "", "container %s was started on instance %s %s after the pool had received its 'broken' report", u, v.ID, now.Sub(t))
			}
		}
		if v.Idle == worker.IdleBehaviorHold {
			s.holdSeen = true
		}
	}
	inc.prevSnap = cur

	// ---- C14: a lingering process of a container that (as delivered to the dispatcher) is
	// cancelled / complete / requeued / on hold gets a kill
	grace := 5*(s.k.PollInterval+s.k.ProbeInterval) + 3*s.k.TimeoutSignal + 60*time.Second
	for _, in := range s.cloud.insts {
		if in.gone {
			continue
		}
		vm := in.vm
		for _, p := range vm.procs {
			if !p.live {
				continue
			}
			owed := false
			if v, ok := cur[in.id]; ok && (has(v.Running, p.uuid) || has(v.Starting, p.uuid)) &&
				!in.terminating() && vm.responsive(now) && !vm.neverBoots && now.After(vm.bootAt) && (vm.brokenAt.IsZero() || now.Before(vm.brokenAt)) && !vm.crunchMissing {
				if k := inc.know[p.uuid]; k != nil && k.seen {
					owed = !k.good && (isFinal(k.state) || k.state == arvados.ContainerStateQueued || k.prio == 0)
				}
			}
			switch {
			case !owed || p.kills > 0 || p.killTried > 0:
				p.obligFrom = time.Time{}
			case p.obligFrom.IsZero():
				p.obligFrom = now
				s.w.Probe("lingering-process-owed-a-kill")
			case now.Sub(p.obligFrom) > grace:
				k := inc.know[p.uuid]
				s.viol("C14", "lingering-process-not-killed", "", "container %s: the dispatcher was told state=%s priority=%d, its pool tracks crunch-run pid %d on the healthy instance %s, but no kill reached the process for %s (grace %s)",
					p.uuid, k.state, k.prio, p.pid, in.id, now.Sub(p.obligFrom).Round(time.Second), grace)
				p.obligFrom = time.Time{}
			}
		}
	}
}

// ---- environment events ----------------------------------------------------------------

func (s *sim) pickCtr(label string, ok func(*apiCtr) bool) *apiCtr {
	var c []*apiCtr
	for _, u := range s.api.uuids {
		if ac := s.api.ctrs[u]; ok(ac) {
			c = append(c, ac)
		}
	}
	if len(c) == 0 {
		return nil
	}
	return c[s.w.Choose(label, len(c))]
}

func (s *sim) pickInst(label string, ok func(*simInst) bool) *simInst {
	var c []*simInst
	for _, in := range s.cloud.insts {
		if !in.gone && ok(in) {
			c = append(c, in)
		}
	}
	if len(c) == 0 {
		return nil
	}
	return c[s.w.Choose(label, len(c))]
}

func (s *sim) admin(in *simInst, b worker.IdleBehavior) {
	inc := s.inc
	if inc == nil || inc.dead || inc.pool == nil {
		return
	}
	s.nAdmin++
	pool := inc.pool
	id := in.id
	// an operator overriding the idle behaviour takes responsibility for the instance: the
	// "no work after a broken report" clause is re-armed by the next report the pool receives
	delete(inc.brokenSeen, string(id))
	s.logf("admin %s %s", b, id)
	s.w.SpawnOn(inc.node, fmt.Sprintf("%s.admin%d", inc.node, s.nAdmin), func() { pool.SetIdleBehavior(id, b) })
}

func (s *sim) injectEvent() {
	w := s.w
	var kinds []string
	for _, e := range allEventKinds {
		if s.evOn[e] {
			kinds = append(kinds, e)
		}
	}
	kind := kinds[w.Choose("event", len(kinds))]
	now := time.Now()
	fault := true
	switch kind {
	case "new-container":
		fault = false
		if s.toArrive > 0 {
			s.toArrive--
			s.genContainer(s.rnd, s.o.boundaryPM)
		}
	case "user-priority-0":
		if ac := s.pickCtr("which", func(a *apiCtr) bool { return !isFinal(a.c.State) && a.c.Priority > 0 }); ac != nil {
			s.origPrio[ac.c.UUID] = ac.c.Priority
			s.api.userSetPriority(ac.c.UUID, 0)
			w.Fault("user-priority-0")
		}
	case "user-priority-back":
		if ac := s.pickCtr("which", func(a *apiCtr) bool { return !isFinal(a.c.State) && a.c.Priority == 0 && s.origPrio[a.c.UUID] > 0 }); ac != nil {
			s.api.userSetPriority(ac.c.UUID, s.origPrio[ac.c.UUID])
			w.Fault("user-priority-back")
		}
	case "user-cancel":
		if ac := s.pickCtr("which", func(a *apiCtr) bool { return !isFinal(a.c.State) }); ac != nil {
			s.api.userCancel(ac.c.UUID)
			w.Fault("user-cancel")
		}
	case "admin-hold", "admin-drain", "admin-run":
		if in := s.pickInst("which", func(*simInst) bool { return true }); in != nil {
			s.admin(in, worker.IdleBehavior(strings.TrimPrefix(kind, "admin-")))
			w.Fault(kind)
		}
	case "vm-unresponsive":
		if in := s.pickInst("which", func(in *simInst) bool { return in.vm.responsive(now) }); in != nil {
			in.vm.unrespFrom = now
			in.vm.unrespTill = now.Add(s.lat("unresponsive-for", 8*time.Second, 40*time.Second, 90*time.Second, 400*time.Second))
			s.logf("vm %s unresponsive for %s", in.id, in.vm.unrespTill.Sub(now))
			w.Fault("vm-unresponsive")
		}
	case "vm-break":
		if in := s.pickInst("which", func(in *simInst) bool { return in.vm.brokenAt.IsZero() }); in != nil {
			in.vm.brokenAt = now
			s.logf("vm %s breaks", in.id)
			w.Fault("vm-break")
		}
	case "vm-report-broken":
		if in := s.pickInst("which", func(in *simInst) bool { return in.vm.reportBrokenAt.IsZero() }); in != nil {
			in.vm.reportBrokenAt = now
			s.logf("vm %s starts reporting broken", in.id)
			w.Fault("vm-report-broken")
		}
	case "proc-crash":
		var ps []*simProc
		for _, in := range s.cloud.insts {
			if !in.gone {
				for _, p := range in.vm.procs {
					if p.live {
						ps = append(ps, p)
					}
				}
			}
		}
		if len(ps) > 0 {
			p := ps[w.Choose("which", len(ps))]
			p.vm.exit(p, now, "crash (event)")
			w.Fault("proc-crash")
		}
	case "cloud-vanish":
		if in := s.pickInst("which", func(*simInst) bool { return true }); in != nil {
			s.cloud.kill(in, "vanished")
			w.Fault("cloud-vanish")
		}
	case "restart":
		if s.inc != nil && !s.inc.dead && s.restarts < 2 {
			s.restarts++
			s.stopDispatcher()
			s.restartAt = now.Add(s.lat("downtime", 100*time.Millisecond, 5*time.Second, 40*time.Second, 200*time.Second))
			w.Fault("dispatcher-restart")
		}
	}
	if fault {
		s.lastFault = now
	}
	s.nextEvent = now.Add(s.lat("event-gap", 2*time.Second, 300*time.Millisecond, 10*time.Second, 40*time.Second))
}

// settled: nothing is left for a dispatcher to do.
func (s *sim) settled(wantInstancesGone bool) bool {
	if s.toArrive > 0 {
		return false
	}
	for _, u := range s.api.uuids {
		ac := s.api.ctrs[u]
		switch ac.c.State {
		case arvados.ContainerStateComplete, arvados.ContainerStateCancelled:
		case arvados.ContainerStateQueued:
			if ac.c.Priority > 0 {
				return false
			}
		default:
			return false
		}
	}
	for _, in := range s.cloud.insts {
		if in.gone {
			continue
		}
		if wantInstancesGone {
			return false
		}
		for _, p := range in.vm.procs {
			if p.live {
				return false
			}
		}
	}
	return true
}

func (s *sim) endState() string {
	n := map[arvados.ContainerState]int{}
	for _, u := range s.api.uuids {
		n[s.api.ctrs[u].c.State]++
	}
	procs := 0
	for _, c := range s.everStarted {
		procs += c
	}
	return fmt.Sprintf("q%d l%d r%d c%d x%d inst%d/%d procs%d disp%d", n[arvados.ContainerStateQueued], n[arvados.ContainerStateLocked], n[arvados.ContainerStateRunning],
		n[arvados.ContainerStateComplete], n[arvados.ContainerStateCancelled], s.cloud.liveCount(), len(s.cloud.insts), procs, s.nInc)
}

// populate draws the workload: some containers exist at the start, the rest arrive later.
func (s *sim) populate(maxN int) {
	w := s.w
	n := 1 + w.Choose("ncontainers", maxN)
	s.rnd = w.NewRand("workload")
	first := 1 + w.Choose("initial-containers", n)
	for i := 0; i < first; i++ {
		s.genContainer(s.rnd, s.o.boundaryPM)
	}
	s.toArrive = n - first
}

// drive runs the system until stop() says so, injecting environment events when due.
func (s *sim) drive(events bool, stop func() bool) bool {
	w := s.w
	for {
		w.Run(func() bool {
			s.afterStep()
			now := time.Now()
			return stop() || (events && !now.Before(s.nextEvent)) || (!s.restartAt.IsZero() && !now.Before(s.restartAt)) ||
				(!events && s.quiet && !now.Before(s.nextQuietTick))
		})
		if w.Failed() || w.Truncated() {
			return false
		}
		now := time.Now()
		if stop() {
			return true
		}
		if !s.restartAt.IsZero() && !now.Before(s.restartAt) {
			s.restartAt = time.Time{}
			s.startDispatcher()
			continue
		}
		if events && !now.Before(s.nextEvent) {
			s.injectEvent()
			continue
		}
		if s.quiet && !now.Before(s.nextQuietTick) {
			s.quietTick()
			continue
		}
		// Step() returned false although nothing stopped us: nothing can happen any more
		return true
	}
}

// quietTick: during the quiet phase the operator eventually takes every instance out of "hold"
// and new containers still arrive; nothing else is injected.
func (s *sim) quietTick() {
	now := time.Now()
	s.nextQuietTick = now.Add(20 * time.Second)
	if s.toArrive > 0 {
		s.toArrive--
		s.genContainer(s.rnd, s.o.boundaryPM)
	}
	inc := s.inc
	if inc == nil || inc.dead || inc.pool == nil {
		return
	}
	for _, in := range s.cloud.insts {
		if v, ok := inc.prevSnap[in.id]; ok && !in.gone && v.Idle == worker.IdleBehaviorHold {
			s.admin(in, worker.IdleBehaviorRun)
		}
	}
}

func (s *sim) horizon() time.Duration {
	if s.long {
		return 2 * time.Hour
	}
	return 10 * time.Minute
}

func (s *sim) maxContainers() int {
	if s.long {
		return 120
	}
	return 40
}

// ---- C14 -----------------------------------------------------------------------------------

func scenC14(w *vsim.World, spec *vsim.Spec) {
	s := newSim(w, spec, scenOpts{prop: "C14", maxTypes: 3, boundaryPM: 100})
	s.populate(s.maxContainers())
	s.startDispatcher()
	s.nextEvent = time.Now().Add(s.lat("first-event", 5*time.Second, time.Second, 20*time.Second))
	end := time.Now().Add(s.horizon())
	s.drive(s.faultsOn, func() bool { return s.settled(false) || time.Now().After(end) })
	if w.Failed() || w.Truncated() {
		return
	}
	if s.settled(false) {
		w.Probe("run-settled")
	}
	w.SetEndState(s.endState())
}

// ---- C16 -----------------------------------------------------------------------------------

func scenC16(w *vsim.World, spec *vsim.Spec) {
	s := newSim(w, spec, scenOpts{prop: "C16", maxTypes: 12, richTypes: true, boundaryPM: 600})
	// pure ride-along: many more constraint vectors than the simulated queue will see
	r := w.NewRand("pure-samples")
	for i := 0; i < 150; i++ {
		c := s.genConstraints(r, i%4 != 0)
		c.UUID = "zzzzz-dz642-pure00000000000"
		it, err := ChooseInstanceType(s.cluster, &c)
		s.checkChoice(&c, it, err, "pure")
		if w.Failed() {
			return
		}
	}
	s.populate(s.maxContainers())
	s.startDispatcher()
	s.nextEvent = time.Now().Add(s.lat("first-event", 5*time.Second, time.Second, 20*time.Second))
	end := time.Now().Add(s.horizon() / 2)
	s.drive(s.faultsOn, func() bool { return s.settled(false) || time.Now().After(end) })
	if w.Failed() || w.Truncated() {
		return
	}
	// faults stop; an unsatisfiable container must end Cancelled with the error text, never started
	s.faultsOn = false
	s.quiet = true
	s.nextQuietTick = time.Now()
	if s.inc == nil || s.inc.dead {
		s.restartAt = time.Time{}
		s.startDispatcher()
	}
	unsatDone := func() bool {
		if s.toArrive > 0 {
			return false
		}
		for _, u := range s.api.uuids {
			if ac := s.api.ctrs[u]; ac.unsat && !isFinal(ac.c.State) && ac.c.Priority > 0 {
				return false
			}
		}
		return true
	}
	// Bound, per container: counted from the later of "faults stopped" and the container's own arrival
	// (containers keep arriving during the quiet phase), and generous for queues that are polled one
	// container per page over a slow API (a seed-5 thorough run raised a false alarm about a container
	// that had arrived seconds before a bound counted from the start of the quiet phase only).
	quietStart := time.Now()
	bound := func() time.Duration {
		// (a thorough run with 95 containers, one-container pages and a restarted dispatcher needed 37 min for one of them)
		return time.Hour + 30*s.k.PollInterval + time.Duration(len(s.api.uuids)+s.toArrive)*30*time.Second
	}
	dueAt := func(ac *apiCtr) time.Time {
		t := quietStart
		if ac.c.CreatedAt.After(t) {
			t = ac.c.CreatedAt
		}
		return t.Add(bound())
	}
	allDue := func() bool {
		if s.toArrive > 0 {
			return false
		}
		for _, u := range s.api.uuids {
			if ac := s.api.ctrs[u]; ac.unsat && !isFinal(ac.c.State) && ac.c.Priority > 0 && time.Now().Before(dueAt(ac)) {
				return false
			}
		}
		return true
	}
	hardEnd := time.Now().Add(12 * time.Hour)
	s.drive(false, func() bool { return unsatDone() || allDue() || time.Now().After(hardEnd) })
	for _, u := range s.api.uuids {
		ac := s.api.ctrs[u]
		if !ac.unsat {
			continue
		}
		w.Probe("unsatisfiable-container-in-queue")
		if s.everStarted[u] > 0 {
			s.viol("C16", "unsatisfiable-container-started", "", "container %s", u)
		}
		if ac.c.Priority == 0 || ac.userGone {
			continue
		}
		if ac.c.State != arvados.ContainerStateCancelled && time.Now().Before(dueAt(ac)) {
			w.Probe("unsatisfiable-container-too-young-to-judge")
			continue
		}
		if ac.c.State != arvados.ContainerStateCancelled {
			s.viol("C16", "unsatisfiable-container-not-cancelled", "", "container %s (%s) is %s %s after the faults stopped and %s after it arrived (bound %s); history: %s", u, describeCtr(&ac.c), ac.c.State, time.Since(quietStart).Round(time.Second), time.Since(ac.c.CreatedAt).Round(time.Second), bound(), strings.Join(ac.hist, ", "))
		} else if txt, _ := ac.c.RuntimeStatus["error"].(string); !strings.Contains(txt, "not satisfiable") && !ac.cancelledByUser() {
			s.viol("C16", "unsatisfiable-container-cancelled-without-error-text", "", "container %s runtime_status=%v history: %s", u, ac.c.RuntimeStatus, strings.Join(ac.hist, ", "))
		}
	}
	w.SetEndState(s.endState())
}

func (ac *apiCtr) cancelledByUser() bool {
	for _, h := range ac.hist {
		if strings.Contains(h, "user:cancel") || strings.Contains(h, "max-dispatch-attempts") {
			return true
		}
	}
	return false
}

// ---- C15 -----------------------------------------------------------------------------------

func scenC15(w *vsim.World, spec *vsim.Spec) {
	s := newSim(w, spec, scenOpts{prop: "C15", maxTypes: 3, boundaryPM: 100})
	s.populate(s.maxContainers() / 2)
	s.startDispatcher()
	// a dispatcher restart at a seeded point in about half of the runs
	s.evOn["restart"] = false
	restartAt := time.Duration(0)
	if w.Choose("restart", 2) == 1 {
		restartAt = s.lat("restart-at", 10*time.Second, 2*time.Second, 40*time.Second, 150*time.Second)
	}
	faultPhase := s.lat("fault-phase", 60*time.Second, 15*time.Second, 200*time.Second, 600*time.Second)
	s.nextEvent = time.Now().Add(s.lat("first-event", 5*time.Second, time.Second, 20*time.Second))
	t0 := time.Now()
	restarted := restartAt == 0
	s.drive(s.faultsOn, func() bool {
		el := time.Since(t0)
		return el >= faultPhase || (!restarted && el >= restartAt)
	})
	if w.Failed() || w.Truncated() {
		return
	}
	if !restarted {
		restarted = true
		s.stopDispatcher()
		s.restarts++
		w.Fault("dispatcher-restart")
		s.lastFault = time.Now()
		s.restartAt = time.Now().Add(s.lat("downtime", 100*time.Millisecond, 5*time.Second, 40*time.Second, 200*time.Second))
		s.drive(s.faultsOn, func() bool { return time.Since(t0) >= faultPhase && s.restartAt.IsZero() })
		if w.Failed() || w.Truncated() {
			return
		}
	}
	// ---- quiet phase: the root stops injecting, the cloud supplies working instances
	s.faultsOn = false
	s.quiet = true
	s.nextQuietTick = time.Now()
	for _, in := range s.cloud.insts { // slow VMs recover; broken ones stay broken
		if !in.gone && in.vm.unrespTill.After(time.Now()) {
			in.vm.unrespTill = time.Now()
		}
	}
	if s.inc == nil || s.inc.dead {
		s.restartAt = time.Time{}
		s.startDispatcher()
	}
	if s.lastFault.IsZero() {
		s.lastFault = time.Now()
	}
	quietStart := time.Now()
	// B: generous multiple of what the same workload needs without faults. The fault-free
	// need is bounded from the drawn knobs and process times: every container needs at most
	// a boot (45 s) plus its start lag and run time plus a probe and a poll interval, and
	// ceil(n/quota) such waves run one after the other. B = 100 x the typical need (a
	// tenth of that worst case), at least 2 h and at most 6 h of simulated time.
	n := len(s.api.uuids) + s.toArrive
	perCtr := 45*time.Second + s.maxRun() + s.k.ProbeInterval + s.k.PollInterval
	waves := (n + s.k.Quota - 1) / s.k.Quota
	worst := time.Duration(waves)*perCtr + s.k.TimeoutIdle + 40*time.Second
	B := 10 * worst
	if B < 2*time.Hour {
		B = 2 * time.Hour
	}
	if max := 6 * time.Hour; B > max {
		B = max
	}
	s.logf("quiet phase begins; B=%s", B)
	deadline := quietStart.Add(B)
	s.drive(false, func() bool { return s.settled(true) || time.Now().After(deadline) })
	if w.Failed() || w.Truncated() {
		return
	}
	if s.settled(true) {
		w.Probe("run-settled")
		w.Note("settle", fmt.Sprint(time.Since(quietStart).Round(time.Second)))
		for _, b := range []time.Duration{time.Minute, 5 * time.Minute, 15 * time.Minute, 30 * time.Minute, time.Hour, 6 * time.Hour} {
			if time.Since(quietStart) <= b {
				w.Probe("settled-within-" + b.String())
				break
			}
		}
		if f := float64(time.Since(quietStart)) / float64(B); f > 0.25 {
			w.Probe("settled-after-more-than-a-quarter-of-the-bound")
		}
	}
	s.cloud.reap()
	since := time.Since(quietStart).Round(time.Second)
	for _, u := range s.api.uuids {
		ac := s.api.ctrs[u]
		live := len(s.liveProcs(u)) > 0
		switch {
		case (ac.c.State == arvados.ContainerStateRunning || ac.c.State == arvados.ContainerStateLocked) && !live:
			stuckSig := string(ac.c.State)
			{
				// the at-quota thrash (see below) caught in the Locked half of its lock/unlock cycle
				created, started := 0, 0
				for _, in := range s.cloud.insts {
					if in.created.After(quietStart) {
						created++
						started += len(in.vm.procs)
					}
				}
				if ac.c.State == arvados.ContainerStateLocked && s.k.Quota <= 3 && created >= 30 && started*8 <= created {
					stuckSig = "at-quota-thrash-instances-destroyed-unused"
				}
			}
			s.viol("C15", "container-stuck-without-process", stuckSig, "container %s is still %s with no live crunch-run process %s after the last fault (bound %s); history: %s | starts: %s",
				u, ac.c.State, since, B, strings.Join(ac.hist, ", "), strings.Join(s.historyOf(u), " | "))
		case !isFinal(ac.c.State) && ac.c.Priority > 0 && ac.chosen:
			sig := string(ac.c.State)
			// the at-quota thrash: in the quiet phase the dispatcher keeps creating instances and destroying them
			// unused (many instances, hardly any crunch-run start) under a cloud quota of one to three instances
			created, started := 0, 0
			for _, in := range s.cloud.insts {
				if in.created.After(quietStart) {
					created++
					started += len(in.vm.procs)
				}
			}
			if s.k.Quota <= 3 && created >= 30 && started*8 <= created {
				sig = "at-quota-thrash-instances-destroyed-unused"
			}
			s.viol("C15", "runnable-container-not-finished", sig, "container %s (priority %d) is %s (live process: %v) %s after the last fault (bound %s); %d instances created and %d crunch-run processes started since the faults stopped (quota %d); history: %s | starts: %s | %s",
				u, ac.c.Priority, ac.c.State, live, since, B, created, started, s.k.Quota, strings.Join(ac.hist, ", "), strings.Join(s.historyOf(u), " | "), s.describePool())
		}
	}
	for _, in := range s.cloud.insts {
		if !in.gone {
			s.viol("C15", "instance-never-destroyed", "", "instance %s (created %s ago by dispatcher %d, terminating=%v) still exists %s after the last fault although the queue is drained=%v; %s",
				in.id, time.Since(in.created).Round(time.Second), in.byInc, in.terminating(), since, s.settled(false), s.describePool())
			break
		}
	}
	w.SetEndState(s.endState())
}

func (s *sim) maxRun() time.Duration {
	m := time.Second
	for _, in := range s.cloud.insts {
		for _, p := range in.vm.procs {
			if d := p.startLag + p.runDur; d > m {
				m = d
			}
		}
	}
	return m
}

func (s *sim) describePool() string {
	inc := s.inc
	if inc == nil || inc.pool == nil {
		return "no dispatcher"
	}
	ws, loaded := worker.VerifSnapshot(inc.pool)
	var l []string
	for _, v := range ws {
		l = append(l, fmt.Sprintf("%s:%s/%s/%s run=%v start=%v", v.ID, v.Type, v.State, v.Idle, v.Running, v.Starting))
	}
	return fmt.Sprintf("pool(loaded=%v): %s; exited=%v", loaded, strings.Join(l, "; "), worker.VerifExited(inc.pool))
}
