//go:build go1.26

//go:debug asynctimerchan=0

package dispatchcloud

import (
	"testing"

	"verif.local/vsim"
)

func TestVerif(t *testing.T) {
	vsim.Main(t, map[string]vsim.Scenario{
		"C14":  scenC14,
		"C15":  scenC15,
		"C16":  scenC16,
		"C16P": scenC16P,
	})
}
