//go:build go1.26

package dispatchcloud

import (
	"errors"
	"fmt"
	"time"

	"git.arvados.org/arvados.git/lib/cloud"
	"git.arvados.org/arvados.git/sdk/go/arvados"
	"golang.org/x/crypto/ssh"
)

// ---- cloud model -------------------------------------------------------------------------
//
// Physically consistent: an instance exists from the instant its Create request is
// granted until the instant it is gone; a listing is a true snapshot taken at the instant
// the Instances request is granted (delivered later: listing lag); a gone instance is
// never listed again and all its processes are dead.

type simInst struct {
	n        int
	id       cloud.InstanceID
	ptype    string
	tags     cloud.InstanceTags // truth
	prevTags cloud.InstanceTags // what a stale listing may still show
	created  time.Time
	goneAt   time.Time // zero: not terminating
	gone     bool
	vm       *simVM
	byInc    int
}

func (i *simInst) terminating() bool { return !i.goneAt.IsZero() }

type cloudModel struct {
	s     *sim
	insts []*simInst
	byID  map[cloud.InstanceID]*simInst
}

func newCloudModel(s *sim) *cloudModel {
	return &cloudModel{s: s, byID: map[cloud.InstanceID]*simInst{}}
}

func copyTags(t cloud.InstanceTags) cloud.InstanceTags {
	r := cloud.InstanceTags{}
	for k, v := range t {
		r[k] = v
	}
	return r
}

// reap applies every time-triggered change that is due (instances going away, processes
// dying after SIGTERM, lock files released). Called at the start of every model access.
func (c *cloudModel) reap() {
	now := time.Now()
	for _, in := range c.insts {
		if in.gone {
			continue
		}
		if in.terminating() && !in.goneAt.After(now) {
			c.kill(in, "destroyed")
			continue
		}
		in.vm.reap(now)
	}
}

func (c *cloudModel) kill(in *simInst, why string) {
	if in.gone {
		return
	}
	in.gone = true
	in.vm.die()
	c.s.logf("cloud %s gone (%s)", in.id, why)
}

func (c *cloudModel) liveCount() int {
	n := 0
	for _, in := range c.insts {
		if !in.gone {
			n++
		}
	}
	return n
}

type simQuotaError struct{ msg string }

func (e simQuotaError) Error() string      { return e.msg }
func (e simQuotaError) IsQuotaError() bool { return true }

type simRateLimitError struct{ until time.Time }

func (e simRateLimitError) Error() string            { return "simulated: rate limit exceeded" }
func (e simRateLimitError) EarliestRetry() time.Time { return e.until }

var errSimCloud = errors.New("simulated cloud API failure")

// simInstanceSet is the cloud.InstanceSet handed to one dispatcher incarnation.
type simInstanceSet struct {
	s   *sim
	inc *incarnation
}

type createRes struct {
	inst cloud.Instance
	err  error
}

func (is *simInstanceSet) Create(it arvados.InstanceType, image cloud.ImageID, tags cloud.InstanceTags, cmd cloud.InitCommand, key ssh.PublicKey) (cloud.Instance, error) {
	s := is.s
	tags = copyTags(tags)
	r := s.call(is.inc, "cloud-create", it.Name, func() (time.Duration, any) {
		c := s.cloud
		c.reap()
		lat := s.lat("create-lat", 200*time.Millisecond, 2*time.Second, 10*time.Second, 40*time.Second)
		if s.chance("cloud-rate-limit") {
			return time.Millisecond * 50, createRes{err: simRateLimitError{time.Now().Add(s.lat("rate-limit-for", 2*time.Second, 10*time.Second, 30*time.Second))}}
		}
		if c.liveCount() >= s.k.Quota {
			s.w.Probe("cloud-at-quota")
			return 100 * time.Millisecond, createRes{err: simQuotaError{"simulated: instance quota exceeded"}}
		}
		if s.chance("cloud-quota-error") { // capacity errors unrelated to our own count
			return 100 * time.Millisecond, createRes{err: simQuotaError{"simulated: insufficient capacity"}}
		}
		if s.chance("cloud-create-fail") {
			return lat, createRes{err: errSimCloud}
		}
		in := &simInst{n: len(c.insts) + 1, ptype: it.ProviderType, tags: tags, prevTags: copyTags(tags), created: time.Now(), byInc: is.inc.n}
		in.id = cloud.InstanceID(fmt.Sprintf("i-%03d", in.n))
		in.vm = newSimVM(s, in)
		c.insts = append(c.insts, in)
		c.byID[in.id] = in
		s.logf("cloud create %s type=%s boot=%s", in.id, it.Name, in.vm.describe())
		if s.chance("cloud-create-response-lost") {
			return lat, createRes{err: errSimCloud}
		}
		return lat, createRes{inst: &simInstance{s: s, inc: is.inc, in: in, tags: copyTags(in.tags)}}
	}, nil).(createRes)
	return r.inst, r.err
}

type listRes struct {
	insts []cloud.Instance
	err   error
}

func (is *simInstanceSet) Instances(want cloud.InstanceTags) ([]cloud.Instance, error) {
	s := is.s
	r := s.call(is.inc, "cloud-list", "", func() (time.Duration, any) {
		c := s.cloud
		c.reap()
		lat := s.lat("list-lat", 100*time.Millisecond, time.Second, 5*time.Second)
		if s.chance("cloud-rate-limit") {
			return 50 * time.Millisecond, listRes{err: simRateLimitError{time.Now().Add(s.lat("rate-limit-for", 2*time.Second, 10*time.Second, 30*time.Second))}}
		}
		if s.chance("cloud-list-fail") {
			return lat, listRes{err: errSimCloud}
		}
		var r listRes
	insts:
		for _, in := range c.insts {
			if in.gone {
				continue
			}
			for k, v := range want {
				if in.tags[k] != v {
					continue insts
				}
			}
			t := in.tags
			if s.chance("cloud-stale-tags") {
				t = in.prevTags
			}
			r.insts = append(r.insts, &simInstance{s: s, inc: is.inc, in: in, tags: copyTags(t)})
		}
		return lat, r
	}, func(res any) {
		// the pool has now been shown these instances
		if r := res.(listRes); r.err == nil {
			is.inc.listings++
		}
	}).(listRes)
	return r.insts, r.err
}

func (is *simInstanceSet) Stop() {}

// simInstance is the snapshot object handed to the pool (cloud.Instance).
type simInstance struct {
	s    *sim
	inc  *incarnation
	in   *simInst
	tags cloud.InstanceTags
}

func (i *simInstance) ID() cloud.InstanceID                           { return i.in.id }
func (i *simInstance) String() string                                 { return string(i.in.id) }
func (i *simInstance) ProviderType() string                           { return i.in.ptype }
func (i *simInstance) Tags() cloud.InstanceTags                       { return copyTags(i.tags) }
func (i *simInstance) Address() string                                { return fmt.Sprintf("10.0.0.%d", i.in.n) }
func (i *simInstance) RemoteUser() string                             { return "root" }
func (i *simInstance) VerifyHostKey(ssh.PublicKey, *ssh.Client) error { return nil }

func (i *simInstance) SetTags(tags cloud.InstanceTags) error {
	s := i.s
	tags = copyTags(tags)
	r := s.call(i.inc, "cloud-settags", string(i.in.id), func() (time.Duration, any) {
		s.cloud.reap()
		lat := s.lat("settags-lat", 100*time.Millisecond, time.Second)
		if i.in.gone {
			return lat, errors.New("simulated: instance not found")
		}
		if s.chance("cloud-settags-fail") {
			return lat, errSimCloud
		}
		i.in.prevTags = i.in.tags
		i.in.tags = tags
		return lat, error(nil)
	}, nil)
	if r == nil {
		return nil
	}
	return r.(error)
}

func (i *simInstance) Destroy() error {
	s := i.s
	r := s.call(i.inc, "cloud-destroy", string(i.in.id), func() (time.Duration, any) {
		c := s.cloud
		c.reap()
		lat := s.lat("destroy-lat", 100*time.Millisecond, time.Second, 5*time.Second)
		in := i.in
		if in.gone {
			return lat, error(nil)
		}
		if s.chance("cloud-destroy-fail") {
			return lat, errSimCloud
		}
		if !in.terminating() {
			in.goneAt = time.Now().Add(s.lat("terminate-lag", time.Millisecond, time.Second, 8*time.Second, 40*time.Second))
			s.logf("cloud destroy %s accepted, gone at +%s", in.id, in.goneAt.Sub(time.Now()))
		}
		if s.chance("cloud-destroy-response-lost") {
			return lat, errSimCloud
		}
		return lat, error(nil)
	}, nil)
	if r == nil {
		return nil
	}
	return r.(error)
}
