//go:build go1.26

package dispatchcloud

import (
	"errors"
	"fmt"
	"io"
	"sort"
	"strconv"
	"strings"
	"time"

	"git.arvados.org/arvados.git/sdk/go/arvados"
	"verif.local/vsim"
)

// ---- Arvados API model: the containers table with the Rails state machine -------------
//
// Written from services/api/app/models/container.rb (lock / unlock / check_lock /
// check_unlock / validate_lock / check_update_whitelist), not from the dispatcher's
// test stub. Exactly one dispatcher token exists, so "locked by me" == "locked".

const dispatcherAuthUUID = "zzzzz-gj3su-dispatcher00000"

type apiCtr struct {
	c         arvados.Container
	ver       int // bumped on every change; lets the knowledge tracker order snapshots
	lockCount int
	unsat     bool // the brute-force oracle says no configured type can run it
	chosen    bool // the real chooser returned a type for it
	hist      []string
	userGone  bool // the user cancelled it / set priority 0 for good (not judged by liveness)
}

type apiModel struct {
	s     *sim
	ctrs  map[string]*apiCtr
	uuids []string // sorted
	nreq  int
}

func newAPIModel(s *sim) *apiModel { return &apiModel{s: s, ctrs: map[string]*apiCtr{}} }

func (a *apiModel) add(c arvados.Container) *apiCtr {
	ac := &apiCtr{c: c, ver: 1}
	a.ctrs[c.UUID] = ac
	a.uuids = append(a.uuids, c.UUID)
	sort.Strings(a.uuids)
	return ac
}

func (a *apiModel) note(ac *apiCtr, what string) {
	ac.ver++
	ac.hist = append(ac.hist, fmt.Sprintf("%s %s->%s/p%d", time.Since(a.s.t0).Round(time.Millisecond), what, ac.c.State, ac.c.Priority))
	a.s.logf("api %s %s state=%s prio=%d v%d", shortUUID(ac.c.UUID), what, ac.c.State, ac.c.Priority, ac.ver)
}

func (a *apiModel) setState(ac *apiCtr, st arvados.ContainerState, what string) {
	ac.c.State = st
	switch st {
	case arvados.ContainerStateLocked, arvados.ContainerStateRunning:
		ac.c.LockedByUUID = dispatcherAuthUUID
	default:
		ac.c.LockedByUUID = ""
	}
	a.note(ac, what)
}

// operations of the simulated crunch-run (it uses the dispatcher's token)
func (a *apiModel) crunchSetRunning(uuid string) bool {
	ac := a.ctrs[uuid]
	if ac == nil || ac.c.State != arvados.ContainerStateLocked || ac.c.LockedByUUID != dispatcherAuthUUID {
		return false
	}
	a.setState(ac, arvados.ContainerStateRunning, "crunch-run:running")
	return true
}

func (a *apiModel) crunchSetFinal(uuid string, st arvados.ContainerState) bool {
	ac := a.ctrs[uuid]
	if ac == nil || ac.c.State != arvados.ContainerStateRunning {
		return false
	}
	a.setState(ac, st, "crunch-run:final")
	return true
}

// user / admin operations
func (a *apiModel) userSetPriority(uuid string, p int64) {
	ac := a.ctrs[uuid]
	if ac == nil || ac.c.State == arvados.ContainerStateComplete || ac.c.State == arvados.ContainerStateCancelled {
		return
	}
	ac.c.Priority = p
	a.note(ac, "user:priority")
}

func (a *apiModel) userCancel(uuid string) {
	ac := a.ctrs[uuid]
	if ac == nil || ac.c.State == arvados.ContainerStateComplete || ac.c.State == arvados.ContainerStateCancelled {
		return
	}
	a.setState(ac, arvados.ContainerStateCancelled, "user:cancel")
}

// ---- request handling -----------------------------------------------------------------

type news struct {
	uuid   string
	ver    int
	state  arvados.ContainerState
	prio   int64
	absent bool // a by-uuid query proved the container does not exist
}

func (n news) good() bool { return n.state == arvados.ContainerStateLocked && n.prio > 0 }

type apiResp struct {
	err  error
	ctr  *arvados.Container
	list []arvados.Container
	auth bool
	news []news
}

func copyCtr(c arvados.Container, full bool) arvados.Container {
	r := arvados.Container{UUID: c.UUID, State: c.State, Priority: c.Priority, RuntimeConstraints: c.RuntimeConstraints,
		ContainerImage: c.ContainerImage, SchedulingParameters: c.SchedulingParameters, CreatedAt: c.CreatedAt}
	if c.Mounts != nil {
		r.Mounts = map[string]arvados.Mount{}
		for k, v := range c.Mounts {
			r.Mounts[k] = v
		}
	}
	if full {
		r.LockedByUUID = c.LockedByUUID
		if c.RuntimeStatus != nil {
			r.RuntimeStatus = map[string]interface{}{}
			for k, v := range c.RuntimeStatus {
				r.RuntimeStatus[k] = v
			}
		}
	}
	return r
}

func (a *apiModel) newsOf(ac *apiCtr) news {
	return news{uuid: ac.c.UUID, ver: ac.ver, state: ac.c.State, prio: ac.c.Priority}
}

var errSimAPI = errors.New("simulated API failure: 503 service unavailable")
var errSimAPILost = errors.New("simulated API failure: connection reset while reading the response")

func (a *apiModel) match(ac *apiCtr, f arvados.Filter) (bool, error) {
	opnd := fmt.Sprint(f.Operand)
	switch f.Attr + " " + f.Operator {
	case "locked_by_uuid =":
		return ac.c.LockedByUUID == opnd, nil
	case "state =":
		return string(ac.c.State) == opnd, nil
	case "priority >":
		n, err := strconv.ParseInt(opnd, 10, 64)
		if err != nil {
			return false, err
		}
		return ac.c.Priority > n, nil
	case "uuid >":
		return ac.c.UUID > opnd, nil
	case "uuid in":
		l, ok := f.Operand.([]string)
		if !ok {
			return false, fmt.Errorf("uuid in %T", f.Operand)
		}
		for _, u := range l {
			if u == ac.c.UUID {
				return true, nil
			}
		}
		return false, nil
	}
	return false, fmt.Errorf("unsupported filter %v", f)
}

// handle runs on the root goroutine at the instant the request is granted.
func (a *apiModel) handle(method, path string, params interface{}) (time.Duration, *apiResp) {
	s := a.s
	a.nreq++
	lat := s.lat("api-lat", time.Millisecond, 20*time.Millisecond, 200*time.Millisecond, time.Second)
	if s.faultsOn && s.rate["api-slow"] > 0 && s.chance("api-slow") {
		lat = s.lat("api-slow-lat", 3*time.Second, 8*time.Second, 20*time.Second)
	}
	mutating := method != "GET"
	if s.chance("api-fail") {
		return lat, &apiResp{err: errSimAPI}
	}
	lost := mutating && s.chance("api-response-lost")
	r := a.act(method, path, params)
	if lost && r.err == nil {
		s.w.Probe("api-acted-response-lost")
		return lat, &apiResp{err: errSimAPILost}
	}
	return lat, r
}

func (a *apiModel) act(method, path string, params interface{}) *apiResp {
	s := a.s
	fail := func(code int, format string, args ...any) *apiResp {
		return &apiResp{err: fmt.Errorf("request failed: %d: "+format, append([]any{code}, args...)...)}
	}
	switch {
	case method == "GET" && path == "arvados/v1/api_client_authorizations/current":
		return &apiResp{auth: true}
	case method == "GET" && path == "arvados/v1/containers":
		p, ok := params.(arvados.ResourceListParams)
		if !ok {
			s.w.Infra("api model: list params of type %T", params)
			return fail(500, "bad params")
		}
		if p.Order != "uuid" {
			s.w.Infra("api model: unsupported order %q", p.Order)
		}
		var hits []*apiCtr
		for _, u := range a.uuids {
			ac := a.ctrs[u]
			ok := true
			for _, f := range p.Filters {
				m, err := a.match(ac, f)
				if err != nil {
					s.w.Infra("api model: %v", err)
					return fail(422, "%v", err)
				}
				if !m {
					ok = false
					break
				}
			}
			if ok {
				hits = append(hits, ac)
			}
		}
		limit := 100 // the API server's default page size
		if p.Limit != nil {
			limit = *p.Limit
		}
		if limit > s.k.MaxPage {
			limit = s.k.MaxPage // response size limit: short pages are legal
		}
		r := &apiResp{list: []arvados.Container{}}
		if p.Offset > 0 {
			s.w.Probe("api-list-offset-page")
		}
		for i := p.Offset; i < len(hits) && len(r.list) < limit; i++ {
			r.list = append(r.list, copyCtr(hits[i].c, false))
			r.news = append(r.news, a.newsOf(hits[i]))
		}
		// a by-uuid query that comes back empty proves absence (the queue drops those)
		return r
	case method == "GET" && strings.HasPrefix(path, "arvados/v1/containers/"):
		ac := a.ctrs[strings.TrimPrefix(path, "arvados/v1/containers/")]
		if ac == nil {
			return fail(404, "not found")
		}
		c := copyCtr(ac.c, true)
		return &apiResp{ctr: &c}
	case method == "POST" && strings.HasSuffix(path, "/lock"):
		uuid := strings.TrimSuffix(strings.TrimPrefix(path, "arvados/v1/containers/"), "/lock")
		ac := a.ctrs[uuid]
		if ac == nil {
			return fail(404, "not found")
		}
		if ac.c.State != arvados.ContainerStateQueued {
			return fail(422, "cannot lock when %s", ac.c.State)
		}
		if ac.c.Priority <= 0 {
			return fail(422, "cannot lock when priority<=0")
		}
		ac.lockCount++
		a.setState(ac, arvados.ContainerStateLocked, "lock")
		c := copyCtr(ac.c, true)
		return &apiResp{ctr: &c, news: []news{a.newsOf(ac)}}
	case method == "POST" && strings.HasSuffix(path, "/unlock"):
		uuid := strings.TrimSuffix(strings.TrimPrefix(path, "arvados/v1/containers/"), "/unlock")
		ac := a.ctrs[uuid]
		if ac == nil {
			return fail(404, "not found")
		}
		if ac.c.State != arvados.ContainerStateLocked {
			return fail(422, "cannot unlock when %s", ac.c.State)
		}
		if ac.lockCount >= s.k.MaxDispatchAttempts {
			ac.c.RuntimeStatus = map[string]interface{}{"error": "Failed to start container.  Cancelled after exceeding 'Containers.MaxDispatchAttempts'"}
			a.setState(ac, arvados.ContainerStateCancelled, "unlock:max-dispatch-attempts")
			s.w.Probe("api-cancelled-max-dispatch-attempts")
		} else {
			a.setState(ac, arvados.ContainerStateQueued, "unlock")
		}
		c := copyCtr(ac.c, true)
		return &apiResp{ctr: &c, news: []news{a.newsOf(ac)}}
	case method == "PUT" && strings.HasPrefix(path, "arvados/v1/containers/"):
		ac := a.ctrs[strings.TrimPrefix(path, "arvados/v1/containers/")]
		if ac == nil {
			return fail(404, "not found")
		}
		switch p := params.(type) {
		case map[string]map[string]interface{}:
			st, _ := p["container"]["state"].(arvados.ContainerState)
			if st != arvados.ContainerStateCancelled || len(p["container"]) != 1 {
				s.w.Infra("api model: unsupported update %v", p)
				return fail(422, "unsupported")
			}
			switch ac.c.State {
			case arvados.ContainerStateQueued, arvados.ContainerStateLocked, arvados.ContainerStateRunning:
				a.setState(ac, arvados.ContainerStateCancelled, "dispatcher:cancel")
			default:
				return fail(422, "cannot change state from %s to Cancelled", ac.c.State)
			}
			c := copyCtr(ac.c, true)
			return &apiResp{ctr: &c, news: []news{a.newsOf(ac)}}
		case map[string]map[string]map[string]interface{}:
			rs := p["container"]["runtime_status"]
			if rs == nil {
				s.w.Infra("api model: unsupported update %v", p)
				return fail(422, "unsupported")
			}
			if ac.c.State != arvados.ContainerStateLocked && ac.c.State != arvados.ContainerStateRunning {
				return fail(422, "runtime_status cannot be updated when %s", ac.c.State)
			}
			ac.c.RuntimeStatus = map[string]interface{}{}
			for k, v := range rs {
				ac.c.RuntimeStatus[k] = v
			}
			a.note(ac, "dispatcher:runtime_status")
			c := copyCtr(ac.c, true)
			return &apiResp{ctr: &c}
		}
	}
	s.w.Infra("api model: unexpected request %s %s (%T)", method, path, params)
	return fail(500, "unexpected")
}

// apiClient is the container.APIClient handed to one dispatcher incarnation.
type apiClient struct {
	s   *sim
	inc *incarnation
}

func (c *apiClient) RequestAndDecode(dst interface{}, method, path string, body io.Reader, params interface{}) error {
	task := ""
	if t := vsim.CurrentTask(); t != nil {
		task = t.ID
	}
	key := method + " " + strings.TrimPrefix(path, "arvados/v1/")
	if i := strings.Index(key, "zzzzz-dz642-"); i >= 0 {
		key = key[:i] + shortUUID(key[i:i+27]) + key[i+27:]
	}
	if p, ok := params.(arvados.ResourceListParams); ok {
		key += fmt.Sprintf(" f%d o%d", len(p.Filters), p.Offset)
	}
	r := c.s.call(c.inc, "api", key, func() (time.Duration, any) {
		return c.s.api.handle(method, path, params)
	}, func(res any) {
		r := res.(*apiResp)
		if r.err == nil {
			c.inc.wire(task, r.news, method+" "+path)
		}
	}).(*apiResp)
	if r.err != nil {
		return r.err
	}
	switch d := dst.(type) {
	case nil:
	case *arvados.ContainerList:
		d.Items = r.list
	case *arvados.Container:
		if r.ctr != nil {
			*d = *r.ctr
		}
	case *arvados.APIClientAuthorization:
		d.UUID = dispatcherAuthUUID
		d.APIToken = "simtoken"
	default:
		c.s.w.Infra("api client: unexpected destination %T", dst)
	}
	return nil
}
