//go:build go1.26

package dispatchcloud

import (
	"fmt"
	"sort"
	"strings"
	"time"

	"git.arvados.org/arvados.git/sdk/go/arvados"
	"verif.local/vsim"
)

// knobs are drawn per run and handed to BOTH the system under test and the oracles.
type knobs struct {
	ProbeInterval, SyncInterval, PollInterval                      time.Duration
	TimeoutBooting, TimeoutIdle, TimeoutProbe, TimeoutShutdown     time.Duration
	TimeoutTERM, TimeoutSignal, TimeoutStaleRunLock, StaleLockTime time.Duration
	MaxProbesPerSecond, MaxConcurrentCreate                        int
	Quota                                                          int
	MaxPage                                                        int
	MaxDispatchAttempts                                            int
	BootProbe                                                      string
}

func pickDur(w *vsim.World, label string, set ...time.Duration) time.Duration {
	return set[w.Choose(label, len(set))]
}

func drawKnobs(w *vsim.World) knobs {
	s := time.Second
	k := knobs{
		ProbeInterval:       pickDur(w, "k-probe", 5*s, 2*s, 10*s, s/2),
		SyncInterval:        pickDur(w, "k-sync", 5*s, 2*s, 20*s, 60*s),
		PollInterval:        pickDur(w, "k-poll", 5*s, 2*s, 10*s),
		TimeoutBooting:      pickDur(w, "k-tboot", 60*s, 20*s, 600*s),
		TimeoutIdle:         pickDur(w, "k-tidle", 10*s, 4*s, 60*s),
		TimeoutProbe:        pickDur(w, "k-tprobe", 60*s, 15*s, 600*s),
		TimeoutShutdown:     pickDur(w, "k-tshut", 5*s, 2*s, 10*s),
		TimeoutTERM:         pickDur(w, "k-tterm", 30*s, 8*s, 120*s),
		TimeoutSignal:       pickDur(w, "k-tsig", 2*s, s, 5*s),
		TimeoutStaleRunLock: pickDur(w, "k-tstale", 5*s, 2*s),
		StaleLockTime:       pickDur(w, "k-stalelock", 30*s, 5*s, 60*s),
		MaxProbesPerSecond:  []int{10, 1, 100}[w.Choose("k-pps", 3)],
		MaxConcurrentCreate: []int{0, 1, 3}[w.Choose("k-maxcreate", 3)],
		Quota:               1 + (3+w.Choose("k-quota", 8))%8, // 4,5,..,8,1,2,3
		MaxPage:             []int{1000, 100, 5, 2, 1}[w.Choose("k-page", 5)],
		MaxDispatchAttempts: []int{1000, 20, 5}[w.Choose("k-maxdispatch", 3)],
		BootProbe:           []string{"", "systemctl is-system-running"}[w.Choose("k-bootprobe", 2)],
	}
	return k
}

// sim is the whole simulated environment of one run: API, cloud, VMs, and the current
// dispatcher incarnation. Every field is touched only by the root goroutine (scenario
// code, grantable/onGrant callbacks) unless noted.
type sim struct {
	w         *vsim.World
	spec      *vsim.Spec
	k         knobs
	cluster   *arvados.Cluster
	types     []arvados.InstanceType // sorted by name
	api       *apiModel
	cloud     *cloudModel
	faultsOn  bool
	long      bool // thorough tier only: a long run (see newSim)
	lastFault time.Time
	inc       *incarnation
	nInc      int
	// fault rates (permille), drawn per run ("swarm": each run enables a subset)
	rate map[string]int
	// history for violation reports
	startLog []string
	// C16 trace-invariant bookkeeping lives in the proxies of the incarnation.
	everStarted      map[string]int  // uuid -> number of crunch-run processes ever created
	staleUnlock      map[string]bool // uuids unlocked by fixStaleLocks of an incarnation while a process was alive
	staleUnlockEarly map[string]bool // ... and that happened before StaleLockTimeout had elapsed

	t0            time.Time
	o             scenOpts
	evOn          map[string]bool
	origPrio      map[string]int64
	rnd           *vsim.Rand
	toArrive      int
	nAdmin        int
	restarts      int
	restartAt     time.Time
	nextEvent     time.Time
	quiet         bool
	nextQuietTick time.Time
	holdSeen      bool
}

func (s *sim) now() time.Time { return time.Now() }

func (s *sim) chance(kind string) bool {
	if !s.faultsOn {
		return false
	}
	p := s.rate[kind]
	if p <= 0 {
		return false
	}
	if s.w.Chance(kind, p) {
		s.lastFault = time.Now()
		s.w.Fault(kind)
		return true
	}
	return false
}

// lat draws a strictly positive latency for a simulated external call.
func (s *sim) lat(label string, set ...time.Duration) time.Duration {
	d := set[s.w.Choose(label, len(set))]
	if d <= 0 {
		d = time.Millisecond
	}
	return d
}

// call is one external call of the dispatcher: the request is a parked point (the model
// acts at the instant it is granted), the answer travels for a strictly positive
// simulated time, and its delivery is a second parked point, so that the order in which
// answers arrive is a scheduler decision too.
func (s *sim) call(inc *incarnation, kind, key string, send func() (time.Duration, any), deliver func(any)) any {
	w := s.w
	type sent struct {
		lat time.Duration
		res any
	}
	if kind == "ssh" || kind == "api" {
		// the request itself travels for a while before the remote side acts on it: a
		// probe may be sent before, and evaluated after, another command took effect
		out := w.Park(kind+"-out", key, nil, func() any {
			return s.lat(kind+"-out-lat", time.Millisecond, 20*time.Millisecond, 300*time.Millisecond, 2*time.Second)
		}).(time.Duration)
		time.Sleep(out)
	}
	r := w.Park(kind+"-send", key, nil, func() any {
		if inc != nil && inc.dead {
			w.Infra("zombie call %s %s from dead dispatcher incarnation %d", kind, key, inc.n)
		}
		lat, res := send()
		if lat <= 0 {
			lat = time.Millisecond
		}
		return sent{lat, res}
	}).(sent)
	time.Sleep(r.lat)
	w.Park(kind+"-recv", key, nil, func() any {
		if inc != nil && inc.dead {
			return nil
		}
		if deliver != nil {
			deliver(r.res)
		}
		return nil
	})
	return r.res
}

func shortUUID(u string) string {
	if len(u) > 6 {
		return "c" + strings.TrimLeft(u[len(u)-6:], "0")
	}
	return u
}

func sortedKeys[V any](m map[string]V) []string {
	ks := make([]string, 0, len(m))
	for k := range m {
		ks = append(ks, k)
	}
	sort.Strings(ks)
	return ks
}

func (s *sim) logf(format string, args ...any) { s.w.Logf(format, args...) }

func fmtDur(d time.Duration) string { return fmt.Sprint(d) }
