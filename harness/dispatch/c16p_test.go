//go:build go1.26

package dispatchcloud

// C16P: the two ordering clauses of C16 over the property's own quantifier - "all queue
// snapshots of up to 8 containers with distinct and tied priorities against all small pool
// states (idle/booting counts per type, at-quota flag, start success or failure per type)".
//
// The real scheduler (scheduler.New + Start: fixStaleLocks, runQueue, sync, the lock / cancel /
// kill / requeue goroutines, all instrumented) runs against a MODEL queue and a MODEL pool.
// Every call the scheduler makes is one simulator decision; between any two calls the model
// pool may change the way a real pool changes under the scheduler's feet (a booting worker
// turns idle, an idle worker goes away, a create is refused, the quota flag flips), and
// between passes the environment changes priorities, adds containers, boots workers and ends
// processes. The full-system scenario (scenC16) reaches these pool states only a few times
// per run; here every run is a handful of passes over drawn snapshots.

import (
	"context"
	"errors"
	"fmt"
	"io"
	"sort"
	"strings"
	"time"

	"git.arvados.org/arvados.git/lib/dispatchcloud/container"
	"git.arvados.org/arvados.git/lib/dispatchcloud/scheduler"
	"git.arvados.org/arvados.git/lib/dispatchcloud/worker"
	"git.arvados.org/arvados.git/sdk/go/arvados"
	"git.arvados.org/arvados.git/sdk/go/ctxlog"
	"github.com/prometheus/client_golang/prometheus"
	"github.com/sirupsen/logrus"
	"verif.local/vsim"
)

type epCtr struct {
	uuid      string
	state     arvados.ContainerState
	prio      int64
	typ       int
	lingering bool // a crunch-run process of an earlier attempt has not exited yet
}

type epPass struct {
	n        int
	ents     map[string]snapEnt
	running  map[string]bool
	refused  map[string]int64  // type -> highest priority of a Locked container refused a worker in this pass
	refusedU map[string]string // type -> that container
	started  map[string]bool
	unlocked map[string]bool
	calls    []string
}

// epWorld is touched by the root goroutine only (scenario body and onGrant callbacks).
type epWorld struct {
	w         *vsim.World
	types     []arvados.InstanceType
	ctrs      map[string]*epCtr
	order     []string
	idle      []int
	booting   []int
	running   map[string]time.Time
	atQuota   bool
	unknown   int
	mainTask  string
	lastEnts  map[string]snapEnt
	lastRun   map[string]bool
	pass      *epPass
	passes    int
	closed    int
	qsubs     []chan struct{}
	psubs     []chan struct{}
	turbulent bool
}

func (e *epWorld) notify(subs []chan struct{}) {
	for _, ch := range subs {
		select {
		case ch <- struct{}{}:
		default:
		}
	}
}

// call performs one scheduler->model call as a single simulator decision; fn runs on the root.
func (e *epWorld) call(kind, key string, fn func(main bool) any) any {
	task := curTask()
	return e.w.Park(kind, key, nil, func() any {
		if e.mainTask == "" && kind == "queue" && key == "Update" {
			e.mainTask = task // the first call of Scheduler.run
		}
		return fn(task == e.mainTask)
	})
}

func (e *epWorld) describe() string {
	var b strings.Builder
	for _, u := range e.order {
		c := e.ctrs[u]
		if c == nil {
			continue
		}
		_, run := e.running[u]
		fmt.Fprintf(&b, "%s:%s/p%d/t%d", shortUUID(u), c.state, c.prio, c.typ)
		if run {
			b.WriteString("/proc")
		}
		if c.lingering {
			b.WriteString("/lingering")
		}
		b.WriteString(" ")
	}
	fmt.Fprintf(&b, "| idle=%v booting=%v atQuota=%v", e.idle, e.booting, e.atQuota)
	return b.String()
}

// turbulence: what a real pool may do between two calls of one pass.
func (e *epWorld) turbulence() {
	if !e.turbulent {
		return
	}
	w := e.w
	for t := range e.types {
		if e.booting[t] > 0 && w.Chance("booting-worker-turns-idle", 250) {
			e.booting[t]--
			e.idle[t]++
			w.Fault("worker-turned-idle-inside-pass")
			w.Logf("model: a booting %s worker turns idle", e.types[t].Name)
		}
		if e.idle[t] > 0 && w.Chance("idle-worker-goes-away", 60) {
			e.idle[t]--
			w.Fault("idle-worker-gone-inside-pass")
			w.Logf("model: an idle %s worker goes away", e.types[t].Name)
		}
	}
	if w.Chance("quota-flag-flips", 40) {
		e.atQuota = !e.atQuota
		w.Fault("quota-flag-flipped-inside-pass")
		w.Logf("model: atQuota=%v", e.atQuota)
	}
}

func (e *epWorld) typeIndex(it arvados.InstanceType) int {
	for i, t := range e.types {
		if t.Name == it.Name {
			return i
		}
	}
	return -1
}

// ---- model pool --------------------------------------------------------------------------

type epPool struct{ e *epWorld }

func (p epPool) Running() map[string]time.Time {
	return p.e.call("pool", "Running", func(main bool) any {
		e := p.e
		r := map[string]time.Time{}
		rb := map[string]bool{}
		for u, t := range e.running {
			r[u] = t
			rb[u] = true
		}
		if main {
			e.lastRun = rb
		}
		return r
	}).(map[string]time.Time)
}

func (p epPool) Unallocated() map[arvados.InstanceType]int {
	return p.e.call("pool", "Unallocated", func(main bool) any {
		e := p.e
		if main && e.lastEnts != nil {
			e.passes++
			e.pass = &epPass{n: e.passes, ents: e.lastEnts, running: e.lastRun, refused: map[string]int64{}, refusedU: map[string]string{},
				started: map[string]bool{}, unlocked: map[string]bool{}}
			e.w.Probe("runQueue-pass")
			e.w.Logf("pass %d opens: %s", e.passes, e.describe())
		}
		r := map[arvados.InstanceType]int{}
		for t, it := range e.types {
			if n := e.idle[t] + e.booting[t]; n > 0 {
				r[it] = n
			}
		}
		return r
	}).(map[arvados.InstanceType]int)
}

func (p epPool) CountWorkers() map[worker.State]int {
	return p.e.call("pool", "CountWorkers", func(main bool) any {
		e := p.e
		if main {
			e.closePass()
		}
		r := map[worker.State]int{worker.StateUnknown: e.unknown}
		for t := range e.types {
			r[worker.StateIdle] += e.idle[t]
			r[worker.StateBooting] += e.booting[t]
		}
		r[worker.StateRunning] = len(e.running)
		return r
	}).(map[worker.State]int)
}

func (p epPool) AtQuota() bool {
	return p.e.call("pool", "AtQuota", func(main bool) any {
		p.e.turbulence()
		if p.e.atQuota {
			p.e.w.Probe("pool-at-quota-seen-by-scheduler")
		}
		return p.e.atQuota
	}).(bool)
}

func (p epPool) Create(it arvados.InstanceType) bool {
	return p.e.call("pool", "Create "+it.Name, func(main bool) any {
		e := p.e
		e.turbulence()
		t := e.typeIndex(it)
		ok := t >= 0 && !e.atQuota && !e.w.Chance("create-refused", 200)
		if ok {
			e.booting[t]++
		}
		if ps := e.pass; ps != nil && main {
			ps.calls = append(ps.calls, fmt.Sprintf("Create(%s)=%v", it.Name, ok))
		}
		e.w.Logf("Create(%s) = %v", it.Name, ok)
		return ok
	}).(bool)
}

func (p epPool) Shutdown(it arvados.InstanceType) bool {
	return p.e.call("pool", "Shutdown "+it.Name, func(main bool) any {
		e := p.e
		t := e.typeIndex(it)
		ok := t >= 0 && e.idle[t] > 0
		if ok {
			e.idle[t]--
		}
		if ps := e.pass; ps != nil && main {
			ps.calls = append(ps.calls, fmt.Sprintf("Shutdown(%s)=%v", it.Name, ok))
		}
		e.w.Logf("Shutdown(%s) = %v", it.Name, ok)
		return ok
	}).(bool)
}

func (p epPool) KillContainer(uuid, reason string) bool {
	return p.e.call("pool", "Kill "+shortUUID(uuid), func(main bool) any {
		e := p.e
		c := e.ctrs[uuid]
		r := false
		if _, run := e.running[uuid]; run {
			// the process gets its signal; it is gone a little later (between passes)
			r = true
		} else if c != nil && c.lingering {
			r = true
			if e.w.Chance("lingering-process-exits", 400) {
				c.lingering = false
			}
		}
		if ps := e.pass; ps != nil && main {
			ps.calls = append(ps.calls, fmt.Sprintf("Kill(%s)=%v", shortUUID(uuid), r))
		}
		e.w.Logf("KillContainer(%s, %q) = %v", shortUUID(uuid), reason, r)
		return r
	}).(bool)
}

func (p epPool) ForgetContainer(uuid string) {
	p.e.call("pool", "Forget "+shortUUID(uuid), func(main bool) any {
		if t, ok := p.e.running[uuid]; ok && !t.IsZero() {
			delete(p.e.running, uuid)
		}
		return nil
	})
}

func (p epPool) Subscribe() <-chan struct{} {
	return p.e.call("pool", "Subscribe", func(main bool) any {
		ch := make(chan struct{}, 1)
		p.e.psubs = append(p.e.psubs, ch)
		return ch
	}).(chan struct{})
}

func (p epPool) Unsubscribe(ch <-chan struct{}) {
	p.e.call("pool", "Unsubscribe", func(main bool) any {
		for i, c := range p.e.psubs {
			if (<-chan struct{})(c) == ch {
				p.e.psubs = append(p.e.psubs[:i], p.e.psubs[i+1:]...)
				break
			}
		}
		return nil
	})
}

func (p epPool) StartContainer(it arvados.InstanceType, ctr arvados.Container) bool {
	return p.e.call("pool", "Start "+shortUUID(ctr.UUID), func(main bool) any {
		e := p.e
		w := e.w
		e.turbulence()
		t := e.typeIndex(it)
		ok := false
		if t >= 0 && e.idle[t] > 0 {
			e.idle[t]--
			e.running[ctr.UUID] = time.Time{}
			ok = true
		}
		w.Logf("StartContainer(%s, %s) = %v", it.Name, shortUUID(ctr.UUID), ok)
		ps := e.pass
		if ps == nil || !main {
			w.Infra("C16P: StartContainer outside a runQueue pass (main=%v)", main)
			return ok
		}
		ps.calls = append(ps.calls, fmt.Sprintf("Start(%s,%s)=%v", it.Name, shortUUID(ctr.UUID), ok))
		se, inSnap := ps.ents[ctr.UUID]
		if !ok {
			if inSnap && se.prio > ps.refused[it.Name] {
				ps.refused[it.Name], ps.refusedU[it.Name] = se.prio, ctr.UUID
			}
			w.Probe("start-refused-no-idle-worker")
			return ok
		}
		ps.started[ctr.UUID] = true
		w.Probe("start-decided")
		if hp, refused := ps.refused[it.Name]; refused && inSnap && se.prio < hp {
			w.ViolationSig("C16/lower-priority-started-after-higher-was-refused", "",
				"runQueue pass %d: container %s (priority %d, type %s) was started after the higher-priority Locked container %s (priority %d, same type) had been refused a worker in the same pass; calls of the pass: %s",
				ps.n, shortUUID(ctr.UUID), se.prio, it.Name, shortUUID(ps.refusedU[it.Name]), hp, strings.Join(ps.calls, " "))
		}
		if !inSnap || se.state != arvados.ContainerStateLocked || se.prio < 1 || ps.running[ctr.UUID] {
			w.Probe("clause-of-C14-violated:start-of-container-not-locked-in-own-queue")
		}
		return ok
	}).(bool)
}

// closePass: C16's at-quota clause over a finished pass (same statement as incarnation.closePass).
func (e *epWorld) closePass() {
	ps := e.pass
	if ps == nil {
		return
	}
	e.pass = nil
	e.closed++
	e.w.Logf("pass %d closes: %s", ps.n, strings.Join(ps.calls, " "))
	if len(ps.unlocked) == 0 {
		return
	}
	waiting := func(u string) bool {
		se := ps.ents[u]
		return se.state == arvados.ContainerStateLocked && !ps.running[u] && se.prio > 0 // priority 0 = held, not waiting for a worker
	}
	for _, u1 := range sortedKeys(ps.unlocked) {
		if _, ok := ps.ents[u1]; !ok || !waiting(u1) {
			continue
		}
		e.w.Probe("waiting-locked-container-unlocked-at-quota")
		for _, u2 := range sortedKeys(ps.ents) {
			if u2 == u1 || !waiting(u2) || ps.unlocked[u2] || ps.started[u2] {
				continue
			}
			if ps.ents[u2].prio < ps.ents[u1].prio {
				e.w.ViolationSig("C16/unlocked-at-quota-while-lower-priority-keeps-lock", "",
					"runQueue pass %d: waiting Locked container %s (priority %d) was unlocked while the strictly lower-priority waiting Locked container %s (priority %d) kept its lock; calls of the pass: %s",
					ps.n, shortUUID(u1), ps.ents[u1].prio, shortUUID(u2), ps.ents[u2].prio, strings.Join(ps.calls, " "))
				return
			}
		}
	}
}

// ---- model queue -------------------------------------------------------------------------

type epQueue struct{ e *epWorld }

func (q epQueue) ent(c *epCtr) container.QueueEnt {
	return container.QueueEnt{
		Container:    arvados.Container{UUID: c.uuid, State: c.state, Priority: c.prio, CreatedAt: time.Now().Add(-time.Minute)},
		InstanceType: q.e.types[c.typ],
	}
}

func (q epQueue) Entries() (map[string]container.QueueEnt, time.Time) {
	type res struct {
		m map[string]container.QueueEnt
		t time.Time
	}
	r := q.e.call("queue", "Entries", func(main bool) any {
		e := q.e
		m := map[string]container.QueueEnt{}
		snap := map[string]snapEnt{}
		for _, u := range e.order {
			if c := e.ctrs[u]; c != nil {
				m[u] = q.ent(c)
				snap[u] = snapEnt{state: c.state, prio: c.prio, typ: e.types[c.typ].Name}
			}
		}
		if main {
			e.lastEnts = snap
		}
		return res{m, time.Now()}
	}).(res)
	return r.m, r.t
}

func (q epQueue) change(op, uuid string, from []arvados.ContainerState, to arvados.ContainerState) error {
	r := q.e.call("queue", op+" "+shortUUID(uuid), func(main bool) any {
		e := q.e
		c := e.ctrs[uuid]
		var err error
		switch {
		case c == nil:
			err = errors.New("no such container")
		case e.w.Chance("api-refuses-"+op, 100):
			err = errors.New("api error")
		default:
			okFrom := false
			for _, s := range from {
				okFrom = okFrom || c.state == s
			}
			if !okFrom {
				err = fmt.Errorf("cannot %s in state %s", op, c.state)
			} else {
				c.state = to
				e.notify(e.qsubs)
			}
		}
		if ps := e.pass; ps != nil && main {
			ps.calls = append(ps.calls, fmt.Sprintf("%s(%s)=%v", op, shortUUID(uuid), err == nil))
			if op == "Unlock" {
				ps.unlocked[uuid] = true
			}
		}
		e.w.Logf("queue %s(%s) err=%v", op, shortUUID(uuid), err != nil)
		if err != nil {
			return err
		}
		return nil
	})
	if r == nil {
		return nil
	}
	return r.(error)
}

func (q epQueue) Lock(uuid string) error {
	return q.change("Lock", uuid, []arvados.ContainerState{arvados.ContainerStateQueued}, arvados.ContainerStateLocked)
}
func (q epQueue) Unlock(uuid string) error {
	return q.change("Unlock", uuid, []arvados.ContainerState{arvados.ContainerStateLocked}, arvados.ContainerStateQueued)
}
func (q epQueue) Cancel(uuid string) error {
	return q.change("Cancel", uuid, []arvados.ContainerState{arvados.ContainerStateQueued, arvados.ContainerStateLocked, arvados.ContainerStateRunning}, arvados.ContainerStateCancelled)
}
func (q epQueue) Forget(uuid string) {
	q.e.call("queue", "Forget "+shortUUID(uuid), func(main bool) any {
		delete(q.e.ctrs, uuid)
		return nil
	})
}
func (q epQueue) Get(uuid string) (arvados.Container, bool) {
	type res struct {
		c  arvados.Container
		ok bool
	}
	r := q.e.call("queue", "Get "+shortUUID(uuid), func(main bool) any {
		if c := q.e.ctrs[uuid]; c != nil {
			return res{q.ent(c).Container, true}
		}
		return res{}
	}).(res)
	return r.c, r.ok
}
func (q epQueue) Subscribe() <-chan struct{} {
	return q.e.call("queue", "Subscribe", func(main bool) any {
		ch := make(chan struct{}, 1)
		q.e.qsubs = append(q.e.qsubs, ch)
		return ch
	}).(chan struct{})
}
func (q epQueue) Unsubscribe(ch <-chan struct{}) {
	q.e.call("queue", "Unsubscribe", func(main bool) any {
		for i, c := range q.e.qsubs {
			if (<-chan struct{})(c) == ch {
				q.e.qsubs = append(q.e.qsubs[:i], q.e.qsubs[i+1:]...)
				break
			}
		}
		return nil
	})
}
func (q epQueue) Update() error {
	q.e.call("queue", "Update", func(main bool) any { return nil })
	return nil
}

// ---- scenario ------------------------------------------------------------------------------

var epPrios = []int64{5, 1, 2, 3, 5, 9, 0, 2}

func (e *epWorld) newCtr(i int) {
	w := e.w
	u := fmt.Sprintf("zzzzz-dz642-%015d", i)
	c := &epCtr{uuid: u, typ: w.Choose("ctr-type", len(e.types)), prio: epPrios[w.Choose("ctr-prio", len(epPrios))]}
	switch w.Choose("ctr-state", 5) {
	case 0, 1:
		c.state = arvados.ContainerStateLocked
	case 2:
		c.state = arvados.ContainerStateQueued
	case 3: // Locked with its crunch-run process already there
		c.state = arvados.ContainerStateLocked
		e.running[u] = time.Time{}
	case 4:
		c.state = arvados.ContainerStateRunning
		e.running[u] = time.Time{}
	}
	if c.state != arvados.ContainerStateRunning && w.Chance("ctr-lingering-process", 80) {
		if _, run := e.running[u]; !run {
			c.lingering = true
		}
	}
	e.ctrs[u] = c
	e.order = append(e.order, u)
}

func scenC16P(w *vsim.World, spec *vsim.Spec) {
	e := &epWorld{w: w, ctrs: map[string]*epCtr{}, running: map[string]time.Time{}}
	nT := 1 + w.Choose("types", 3)
	for t := 0; t < nT; t++ {
		e.types = append(e.types, arvados.InstanceType{Name: fmt.Sprintf("type%d", t), ProviderType: fmt.Sprintf("p%d", t), VCPUs: 1 + t, RAM: 1 << 30, Price: float64(1 + t)})
		e.idle = append(e.idle, 0)
		e.booting = append(e.booting, 0)
	}
	for t := 0; t < nT; t++ {
		e.idle[t] = w.Choose("idle", 4)
		e.booting[t] = w.Choose("booting", 4)
	}
	e.atQuota = w.Choose("at-quota", 3) == 1
	e.turbulent = w.Choose("pool-changes-inside-passes", 3) != 2
	n := 2 + w.Choose("containers", 7)
	for i := 1; i <= n; i++ {
		e.newCtr(i)
	}
	if w.Chance("unknown-workers-at-start", 150) {
		e.unknown = 1
	}
	w.Logf("episode: %s turbulent=%v unknown=%d", e.describe(), e.turbulent, e.unknown)

	logger := logrus.New()
	logger.Out = io.Discard
	ctx := ctxlog.Context(context.Background(), logger)
	poll := []time.Duration{5 * time.Second, time.Second, 30 * time.Second}[w.Choose("poll-interval", 3)]
	w.SpawnOn("disp", "sched", func() {
		sch := scheduler.New(ctx, epQueue{e}, epPool{e}, prometheus.NewRegistry(), 5*time.Second, poll)
		sch.Start()
	})
	passes := 2 + w.Choose("passes", 5)
	deadline := time.Now().Add(10 * time.Minute)
	for e.closed < passes && time.Now().Before(deadline) {
		target := e.closed + 1
		w.Run(func() bool { return e.closed >= target || time.Now().After(deadline) })
		if w.Failed() || w.Truncated() {
			return
		}
		if e.closed < target {
			break
		}
		// ---- the environment moves on between passes
		if e.unknown > 0 && w.Chance("unknown-worker-probed", 600) {
			e.unknown = 0
		}
		for _, u := range sortedKeys(e.running) {
			c := e.ctrs[u]
			switch w.Choose("proc-event", 6) {
			case 1: // the process does its work
				if c != nil && c.state == arvados.ContainerStateLocked {
					c.state = arvados.ContainerStateRunning
				}
			case 2: // the process ends and the worker is idle again
				if c != nil && c.state == arvados.ContainerStateRunning {
					c.state = arvados.ContainerStateComplete
				}
				delete(e.running, u)
				if c != nil {
					e.idle[c.typ]++
				}
			case 3: // the process has exited, the pool still lists it
				if e.running[u].IsZero() {
					e.running[u] = time.Now()
				}
			}
		}
		for _, u := range e.order {
			c := e.ctrs[u]
			if c == nil {
				continue
			}
			if w.Chance("priority-changes", 150) {
				c.prio = epPrios[w.Choose("ctr-prio", len(epPrios))]
			}
			if c.lingering && w.Chance("lingering-process-exits", 300) {
				c.lingering = false
			}
		}
		for t := range e.types {
			for e.booting[t] > 0 && w.Chance("worker-boots", 400) {
				e.booting[t]--
				e.idle[t]++
			}
		}
		if len(e.order) < 8 && w.Chance("new-container", 300) {
			e.newCtr(len(e.order) + 1)
		}
		if w.Chance("quota-flag-changes", 250) {
			e.atQuota = !e.atQuota
		}
		e.notify(e.qsubs)
		e.notify(e.psubs)
	}
	if e.closed >= passes {
		w.Probe("episode-complete")
	}
	w.KillNode("disp")
	w.Run(nil)
	var st []string
	for _, u := range e.order {
		if c := e.ctrs[u]; c != nil {
			st = append(st, string(c.state))
		}
	}
	sort.Strings(st)
	w.SetEndState(fmt.Sprintf("passes=%d %s", e.closed, strings.Join(st, ",")))
}
