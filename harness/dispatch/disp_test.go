//go:build go1.26

package dispatchcloud

import (
	"context"
	"fmt"
	"io"
	"os"
	"sort"
	"strings"
	"time"

	"git.arvados.org/arvados.git/lib/cloud"
	"git.arvados.org/arvados.git/lib/dispatchcloud/container"
	"git.arvados.org/arvados.git/lib/dispatchcloud/scheduler"
	"git.arvados.org/arvados.git/lib/dispatchcloud/worker"
	"git.arvados.org/arvados.git/sdk/go/arvados"
	"git.arvados.org/arvados.git/sdk/go/ctxlog"
	"github.com/prometheus/client_golang/prometheus"
	"github.com/sirupsen/logrus"
	"verif.local/vsim"
)

// knowledge is what one dispatcher process has been TOLD about a container at the
// simulated API boundary. Versions order the snapshots, so a poll answer that is older
// than an already delivered lock/unlock answer never overrides it (the queue's own
// `dontupdate` logic has to achieve the same).
//
// Good news (Locked with priority>0) counts from the instant it is delivered on the wire;
// bad news counts from the instant the queue method that received it has returned (the
// queue has had the chance to apply it). Both choices err on the side of "the dispatcher
// may still believe it holds the lock", i.e. never towards a false alarm.
type knowledge struct {
	ver       int
	good      bool
	state     arvados.ContainerState
	prio      int64
	clearedAt time.Time
	seen      bool
	// a lock answer older than what the dispatcher had already been told arrived late
	staleLockAnswerAt time.Time
	staleLockAnswerV  int
}

type incarnation struct {
	n     int
	node  string
	s     *sim
	dead  bool
	began time.Time

	pool  *worker.Pool
	queue *container.Queue
	sched *scheduler.Scheduler

	know    map[string]*knowledge
	pending map[string][]news // task id -> bad news received but not yet applied by the queue

	mainTask string   // the scheduler's own goroutine
	pass     *passRec // current runQueue pass (owned by mainTask)
	passes   int
	lastEnt  *entSnap
	lastRun  map[string]time.Time

	prevSnap   map[cloud.InstanceID]worker.VerifWorker
	brokenSeen map[string]time.Time
	listed     map[string]bool // instances from which a crunch-run --list answer has been delivered
	listings   int

	unlocking map[string]string // container -> why this dispatcher's own Unlock call is in flight (root only; read by the main task)
	stalls    int               // root only
	stallsOff bool              // written on root while the main task is parked, read by the main task
}

// stall models a slow or paused dispatcher host: the calling goroutine of the dispatcher
// (here the scheduler's own) stops for a drawn while in the middle of its work, and every
// other goroutine, VM, cloud and API event goes on. At most maxStalls per dispatcher.
const maxStalls = 3

func (inc *incarnation) stall(where string) {
	w := inc.s.w
	if inc.stallsOff {
		return
	}
	d := w.Park("stall", where, nil, func() any {
		if inc.dead || inc.stalls >= maxStalls {
			inc.stallsOff = true
			return time.Duration(0)
		}
		if !inc.s.faultsOn || inc.s.rate["dispatcher-stall"] <= 0 {
			return time.Duration(0)
		}
		d := []time.Duration{0, 20 * time.Millisecond, time.Second, 10 * time.Second}[w.Choose("stall-"+where, 4)]
		if d > 0 {
			inc.stalls++
			inc.s.lastFault = time.Now().Add(d)
			w.Fault("dispatcher-goroutine-stalled")
			inc.s.logf("dispatcher %d: scheduler goroutine stalls for %s (%s)", inc.n, d, where)
		}
		return d
	}).(time.Duration)
	if d > 0 {
		time.Sleep(d)
	}
}

type entSnap struct {
	at   time.Time
	ents map[string]snapEnt
}

type snapEnt struct {
	state arvados.ContainerState
	prio  int64
	typ   string
}

type passRec struct {
	n        int
	start    time.Time
	ents     map[string]snapEnt
	running  map[string]time.Time
	refused  map[string]int64  // type -> highest priority of a Locked container refused a worker in this pass
	refusedU map[string]string // type -> its uuid
	unlocked map[string]bool
	started  map[string]bool
}

// wire: an API answer has been delivered to task (root goroutine, at the recv grant).
func (inc *incarnation) wire(task string, ns []news, src string) {
	for _, n := range ns {
		k := inc.know[n.uuid]
		if n.good() && k != nil && n.ver < k.ver && strings.HasSuffix(src, "/lock") {
			k.staleLockAnswerAt, k.staleLockAnswerV = time.Now(), n.ver
			inc.s.w.Probe("lock-answer-delivered-after-newer-news")
			inc.s.logf("dispatcher %d receives the answer of an old lock call for %s (v%d) after it was told v%d %s", inc.n, shortUUID(n.uuid), n.ver, k.ver, k.state)
		}
		if n.good() {
			if k == nil {
				k = &knowledge{}
				inc.know[n.uuid] = k
			}
			if n.ver >= k.ver {
				if !k.good {
					inc.s.logf("dispatcher %d is told it holds the lock of %s (v%d, priority %d)", inc.n, shortUUID(n.uuid), n.ver, n.prio)
				}
				k.ver, k.good, k.state, k.prio, k.seen = n.ver, true, n.state, n.prio, true
			}
			continue
		}
		inc.pending[task] = append(inc.pending[task], n)
	}
}

// commit: the queue method that received the answers has returned.
func (inc *incarnation) commit(task string) {
	ns := inc.pending[task]
	if len(ns) == 0 {
		return
	}
	delete(inc.pending, task)
	now := time.Now()
	for _, n := range ns {
		k := inc.know[n.uuid]
		if k == nil {
			k = &knowledge{}
			inc.know[n.uuid] = k
		}
		if n.ver >= k.ver {
			if k.good {
				k.clearedAt = now
				inc.s.logf("dispatcher %d is told %s is %s priority %d (v%d): lock knowledge cleared", inc.n, shortUUID(n.uuid), n.state, n.prio, n.ver)
			}
			k.ver, k.good, k.state, k.prio, k.seen = n.ver, false, n.state, n.prio, true
		}
	}
}

// ---- building a dispatcher the way dispatcher.go does ---------------------------------

type logHook struct{ w *vsim.World }

func (h logHook) Levels() []logrus.Level { return logrus.AllLevels }
func (h logHook) Fire(e *logrus.Entry) error {
	var fs []string
	for k, v := range e.Data {
		fs = append(fs, fmt.Sprintf("%s=%v", k, v))
	}
	sort.Strings(fs)
	h.w.Logf("LOG %s %s %s", e.Level, e.Message, strings.Join(fs, " "))
	return nil
}

func (s *sim) newLogger() *logrus.Logger {
	l := logrus.New()
	l.Out = io.Discard
	l.Level = logrus.PanicLevel
	if os.Getenv("VERIF_DISP_LOG") != "" { // debugging aid only: changes fingerprints
		l.Level = logrus.DebugLevel
		l.AddHook(logHook{s.w})
	}
	return l
}

func (s *sim) startDispatcher() *incarnation {
	s.nInc++
	inc := &incarnation{n: s.nInc, node: fmt.Sprintf("disp%d", s.nInc), s: s, began: time.Now(),
		know: map[string]*knowledge{}, pending: map[string][]news{}, brokenSeen: map[string]time.Time{}, listed: map[string]bool{}}
	s.inc = inc
	s.logf("dispatcher %d starts", inc.n)
	s.w.SpawnOn(inc.node, inc.node, func() {
		logger := s.newLogger()
		reg := prometheus.NewRegistry()
		arv := &arvados.Client{APIHost: "api.sim.example", AuthToken: "simtoken"}
		is := &simInstanceSet{s: s, inc: inc}
		inc.pool = worker.NewPool(logger, arv, reg, "zzzzz-simset", is, func(inst cloud.Instance) worker.Executor {
			in := s.cloud.byID[inst.ID()]
			return &simExecutor{s: s, inc: inc, in: in}
		}, nil, s.cluster)
		inc.queue = container.NewQueue(logger, reg, inc.chooseType, &apiClient{s: s, inc: inc})
		ctx := ctxlog.Context(context.Background(), logger)
		inc.sched = scheduler.New(ctx, &queueProxy{inc: inc, q: inc.queue}, &poolProxy{inc: inc, p: inc.pool}, reg, s.k.StaleLockTime, s.k.PollInterval)
		inc.sched.Start()
	})
	return inc
}

// stopDispatcher models the death of the dispatcher process: every goroutine of it is
// gone; calls it had sent and the server already acted on stay acted on.
func (s *sim) stopDispatcher() {
	inc := s.inc
	if inc == nil || inc.dead {
		return
	}
	inc.dead = true
	s.logf("dispatcher %d dies", inc.n)
	s.w.KillNode(inc.node)
}

func (inc *incarnation) chooseType(ctr *arvados.Container) (arvados.InstanceType, error) {
	it, err := ChooseInstanceType(inc.s.cluster, ctr)
	inc.s.checkChoice(ctr, it, err, "queue")
	if ac := inc.s.api.ctrs[ctr.UUID]; ac != nil && err == nil {
		_ = ac
	}
	return it, err
}

// ---- recording proxies around the real queue and pool (scheduler.New takes interfaces) --

func curTask() string {
	if t := vsim.CurrentTask(); t != nil {
		return t.ID
	}
	return "?"
}

type queueProxy struct {
	inc *incarnation
	q   *container.Queue
}

// commit is called when a queue method returns. A method that failed has applied nothing
// (a poll whose last page failed discards the pages it did receive): its bad news does not count.
func (p *queueProxy) commit(err error) {
	inc := p.inc
	task := curTask()
	inc.s.w.Park("oracle-commit", "", nil, func() any {
		if err != nil {
			delete(inc.pending, task)
		} else {
			inc.commit(task)
		}
		return nil
	})
}

func (p *queueProxy) Entries() (map[string]container.QueueEnt, time.Time) {
	ents, upd := p.q.Entries()
	inc := p.inc
	if inc.mainTask == "" {
		inc.mainTask = curTask()
	}
	if curTask() == inc.mainTask {
		inc.closePass()
		snap := &entSnap{at: time.Now(), ents: make(map[string]snapEnt, len(ents))}
		for u, e := range ents {
			snap.ents[u] = snapEnt{e.Container.State, e.Container.Priority, e.InstanceType.Name}
		}
		inc.lastEnt = snap
	}
	return ents, upd
}

func (p *queueProxy) Lock(uuid string) error {
	err := p.q.Lock(uuid)
	p.commit(err)
	return err
}

func (p *queueProxy) Unlock(uuid string) error {
	inc := p.inc
	if curTask() == inc.mainTask {
		if ps := inc.pass; ps != nil {
			ps.unlocked[uuid] = true
		} else if inc.passes == 0 {
			// fixStaleLocks giving a lock back: remember whether a process was alive then
			inc.s.w.Park("oracle-note", "", nil, func() any {
				inc.s.cloud.reap()
				if len(inc.s.liveProcs(uuid)) > 0 {
					inc.s.staleUnlock[uuid] = true
					// Did fixStaleLocks give up (its timeout elapsed with a worker still unprobed), or did it
					// release the lock earlier because no worker was in state Unknown any more?
					inc.s.staleUnlockEarly[uuid] = time.Since(inc.began) < inc.s.k.StaleLockTime
					inc.s.w.Probe("fixStaleLocks-unlocks-container-with-live-process")
				}
				return nil
			})
		}
	}
	// the dispatcher's own unlock (requeue) request is on its way from here until its answer is back
	why := "other"
	if curTask() != inc.mainTask {
		if c, ok := p.q.Get(uuid); ok && c.Priority == 0 {
			why = "priority-0"
		} else if ok {
			why = "process-gone"
		}
	}
	inc.s.w.Park("oracle-note", "", nil, func() any {
		if inc.unlocking == nil {
			inc.unlocking = map[string]string{}
		}
		inc.unlocking[uuid] = why
		return nil
	})
	err := p.q.Unlock(uuid)
	inc.s.w.Park("oracle-note", "", nil, func() any {
		delete(inc.unlocking, uuid)
		return nil
	})
	p.commit(err)
	return err
}

func (p *queueProxy) Cancel(uuid string) error {
	err := p.q.Cancel(uuid)
	p.commit(err)
	return err
}

func (p *queueProxy) Update() error {
	err := p.q.Update()
	p.commit(err)
	return err
}

func (p *queueProxy) Forget(uuid string)                        { p.q.Forget(uuid) }
func (p *queueProxy) Get(uuid string) (arvados.Container, bool) { return p.q.Get(uuid) }
func (p *queueProxy) Subscribe() <-chan struct{}                { return p.q.Subscribe() }
func (p *queueProxy) Unsubscribe(ch <-chan struct{})            { p.q.Unsubscribe(ch) }

type poolProxy struct {
	inc *incarnation
	p   *worker.Pool
}

func (p *poolProxy) Running() map[string]time.Time {
	r := p.p.Running()
	if curTask() == p.inc.mainTask {
		p.inc.lastRun = r
	}
	return r
}

// Unallocated is called by runQueue only: it opens a pass over the most recent Entries().
func (p *poolProxy) Unallocated() map[arvados.InstanceType]int {
	inc := p.inc
	if curTask() == inc.mainTask && inc.lastEnt != nil {
		inc.passes++
		inc.pass = &passRec{n: inc.passes, start: inc.lastEnt.at, ents: inc.lastEnt.ents, running: inc.lastRun,
			refused: map[string]int64{}, refusedU: map[string]string{}, unlocked: map[string]bool{}, started: map[string]bool{}}
		inc.s.w.Probe("runQueue-pass")
	}
	return p.p.Unallocated()
}

func (p *poolProxy) CountWorkers() map[worker.State]int {
	if curTask() == p.inc.mainTask {
		p.inc.closePass() // sync() begins
	}
	return p.p.CountWorkers()
}

func (p *poolProxy) AtQuota() bool {
	r := p.p.AtQuota()
	if r {
		p.inc.s.w.Probe("pool-at-quota-seen-by-scheduler")
	}
	return r
}
func (p *poolProxy) Create(it arvados.InstanceType) bool   { return p.p.Create(it) }
func (p *poolProxy) Shutdown(it arvados.InstanceType) bool { return p.p.Shutdown(it) }
func (p *poolProxy) KillContainer(uuid, reason string) bool {
	return p.p.KillContainer(uuid, reason)
}
func (p *poolProxy) ForgetContainer(uuid string)    { p.p.ForgetContainer(uuid) }
func (p *poolProxy) Subscribe() <-chan struct{}     { return p.p.Subscribe() }
func (p *poolProxy) Unsubscribe(ch <-chan struct{}) { p.p.Unsubscribe(ch) }

func (p *poolProxy) StartContainer(it arvados.InstanceType, ctr arvados.Container) bool {
	ok := p.p.StartContainer(it, ctr)
	inc := p.inc
	s := inc.s
	w := s.w
	uuid := ctr.UUID
	ps := inc.pass
	if curTask() != inc.mainTask || ps == nil {
		w.Infra("StartContainer outside a runQueue pass (task %s)", curTask())
		return ok
	}
	se, inSnap := ps.ents[uuid]
	if !ok {
		// a Locked container was refused a worker
		if inSnap && se.prio > ps.refused[it.Name] {
			ps.refused[it.Name], ps.refusedU[it.Name] = se.prio, uuid
		}
		w.Probe("start-refused-no-idle-worker")
		inc.stall("after-refused-start")
		return ok
	}
	ps.started[uuid] = true
	w.Probe("start-decided")
	// ---- C14: "a container that was ... re-queued has its lingering process killed rather than restarted":
	// no start while this dispatcher's own unlock of the container is on its way
	if why, busy := inc.unlocking[uuid]; busy {
		s.viol("C14", "start-while-own-unlock-in-flight", "requeue-because-"+why,
			"dispatcher %d started container %s while its own unlock (requeue, reason: %s) of that container was still in flight", inc.n, uuid, why)
	}
	// ---- C16 order clause 1 (trace invariant within the pass)
	if hp, refused := ps.refused[it.Name]; refused && inSnap && se.prio < hp {
		s.viol("C16", "lower-priority-started-after-higher-was-refused", "",
			"runQueue pass %d of dispatcher %d: container %s (priority %d, type %s) was started after the higher-priority Locked container %s (priority %d, same type) had been refused a worker in the same pass",
			ps.n, inc.n, uuid, se.prio, it.Name, ps.refusedU[it.Name], hp)
	}
	if inSnap {
		for _, u2 := range sortedKeys(ps.ents) {
			e2 := ps.ents[u2]
			_, run2 := ps.running[u2]
			if e2.typ == it.Name && e2.state == arvados.ContainerStateLocked && e2.prio > se.prio && !run2 && !ps.started[u2] {
				w.Probe("lower-priority-started-while-higher-locked-one-waits")
				break
			}
		}
	}
	// ---- C14: start only while the dispatcher knows it holds the lock with priority>0
	k := inc.know[uuid]
	known := k != nil && (k.good || (!k.clearedAt.IsZero() && !k.clearedAt.Before(ps.start)))
	if !known {
		told := "was never told anything about it"
		if k != nil && k.seen {
			told = fmt.Sprintf("was last told state=%s priority=%d (version %d; lock knowledge cleared %s before this pass read the queue)", k.state, k.prio, k.ver, ps.start.Sub(k.clearedAt).Round(time.Microsecond))
			if k.clearedAt.IsZero() {
				told = fmt.Sprintf("was last told state=%s priority=%d (version %d) and has never been told that it holds the lock", k.state, k.prio, k.ver)
			}
		}
		ac := s.api.ctrs[uuid]
		sig := ""
		if k != nil && !k.staleLockAnswerAt.IsZero() && !k.staleLockAnswerAt.Before(k.clearedAt) && se.state == arvados.ContainerStateLocked {
			sig = "late-lock-answer-overwrites-newer-unlock-in-queue-cache"
			told += fmt.Sprintf("; the answer of an older lock call (v%d) was delivered %s after that and the queue cache shows Locked again", k.staleLockAnswerV, k.staleLockAnswerAt.Sub(k.clearedAt).Round(time.Millisecond))
		}
		if sig == "" && k != nil && k.seen && se.state == arvados.ContainerStateLocked {
			// the queue was told otherwise by an answer it received, yet its cache still says Locked
			// (e.g. Queue.Update skipped the entry because of its dontupdate rule)
			sig = "queue-cache-still-Locked-after-being-told-otherwise"
		}
		s.viol("C14", "start-without-knowing-lock-held", sig,
			"dispatcher %d started container %s (queue entry of this pass: state=%s priority=%d) but at the API boundary it %s; api history: %s",
			inc.n, uuid, se.state, se.prio, told, strings.Join(ac.hist, ", "))
	}
	if !inSnap || se.state != arvados.ContainerStateLocked || se.prio <= 0 {
		s.viol("C14", "start-of-container-not-locked-in-own-queue", "",
			"dispatcher %d started container %s whose entry in the queue snapshot of this pass was state=%q priority=%d (present=%v)", inc.n, uuid, se.state, se.prio, inSnap)
	}
	return ok
}

// closePass evaluates C16's second order clause over a finished runQueue pass.
func (inc *incarnation) closePass() {
	ps := inc.pass
	if ps == nil {
		return
	}
	inc.pass = nil
	if len(ps.unlocked) == 0 {
		return
	}
	w := inc.s.w
	waiting := func(u string) bool {
		e := ps.ents[u]
		_, run := ps.running[u]
		return e.state == arvados.ContainerStateLocked && !run && e.prio > 0 // priority 0 = held, not waiting for a worker
	}
	for _, u1 := range sortedKeys(ps.unlocked) {
		if _, ok := ps.ents[u1]; !ok || !waiting(u1) {
			continue
		}
		w.Probe("waiting-locked-container-unlocked-at-quota")
		for _, u2 := range sortedKeys(ps.ents) {
			if u2 == u1 || !waiting(u2) || ps.unlocked[u2] || ps.started[u2] {
				continue
			}
			if ps.ents[u2].prio < ps.ents[u1].prio {
				inc.s.viol("C16", "unlocked-at-quota-while-lower-priority-keeps-lock", "",
					"runQueue pass %d of dispatcher %d: waiting Locked container %s (priority %d) was unlocked while the strictly lower-priority waiting Locked container %s (priority %d) kept its lock",
					ps.n, inc.n, u1, ps.ents[u1].prio, u2, ps.ents[u2].prio)
				return
			}
		}
	}
}
