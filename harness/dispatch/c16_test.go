//go:build go1.26

package dispatchcloud

import (
	"fmt"
	"sort"
	"strconv"
	"strings"
	"time"

	"git.arvados.org/arvados.git/sdk/go/arvados"
	"verif.local/vsim"
)

// ---- C16, pure clause: brute-force reference for the type choice -------------------------
//
// Written from the property statement, not from node_size.go:
//   - a type is ADEQUATE when VCPUs >= wanted, preemptible flag equal, scratch >= scratch
//     needed for tmp mounts and for loading the Docker image, and 95% of its RAM covers
//     ram + keep_cache_ram + ReserveExtraRAM;
//   - interval-sound RAM arithmetic: the chosen type must pass with the bound rounded DOWN
//     (floor(need*100/95)), and no strictly cheaper type may pass with the bound rounded UP,
//     so a one-byte rounding choice in the implementation can never raise an alarm.
// The image-size estimate follows the documented arv-keepdocker heuristic (manifest size
// minus 80 bytes of file tokens, 42 bytes per 64 MiB block locator, collections smaller
// than 122 bytes hold no image; the tarball is buffered during load, then extracted).

const mib = int64(1 << 20)

func refImageSize(pdh string) int64 {
	i := strings.IndexByte(pdh, '+')
	if i != 32 {
		return 0
	}
	for _, c := range pdh[:32] {
		if !(c >= '0' && c <= '9' || c >= 'a' && c <= 'f') {
			return 0
		}
	}
	if len(pdh) == 33 {
		return 0
	}
	for _, c := range pdh[33:] {
		if c < '0' || c > '9' {
			return 0
		}
	}
	n, err := strconv.ParseInt(pdh[33:], 10, 64)
	if err != nil || n < 122 {
		return 0
	}
	return ((n - 80) / 42) * 64 * mib
}

func refScratch(ctr *arvados.Container) int64 {
	var tmp int64
	for _, m := range ctr.Mounts {
		if m.Kind == "tmp" {
			tmp += m.Capacity
		}
	}
	img := refImageSize(ctr.ContainerImage)
	need := tmp
	if need < img {
		need = img // buffer for `docker load`, released to the job afterwards
	}
	return need + img // plus the extracted image
}

func adequate(it arvados.InstanceType, ctr *arvados.Container, reserve int64, roundUp bool) bool {
	need := ctr.RuntimeConstraints.RAM + ctr.RuntimeConstraints.KeepCacheRAM + reserve
	bound := need * 100 / 95
	if roundUp && need*100%95 != 0 {
		bound++
	}
	return it.VCPUs >= ctr.RuntimeConstraints.VCPUs &&
		it.Preemptible == ctr.SchedulingParameters.Preemptible &&
		int64(it.Scratch) >= refScratch(ctr) &&
		int64(it.RAM) >= bound
}

// refChoice returns the types adequate under the weak and under the strong RAM bound.
func (s *sim) refChoice(ctr *arvados.Container) (weak, strong []arvados.InstanceType) {
	reserve := int64(s.cluster.Containers.ReserveExtraRAM)
	for _, it := range s.types {
		if adequate(it, ctr, reserve, false) {
			weak = append(weak, it)
		}
		if adequate(it, ctr, reserve, true) {
			strong = append(strong, it)
		}
	}
	return
}

func describeCtr(ctr *arvados.Container) string {
	return fmt.Sprintf("vcpus=%d ram=%d keep_cache_ram=%d preemptible=%v scratch-needed=%d image=%q",
		ctr.RuntimeConstraints.VCPUs, ctr.RuntimeConstraints.RAM, ctr.RuntimeConstraints.KeepCacheRAM, ctr.SchedulingParameters.Preemptible, refScratch(ctr), ctr.ContainerImage)
}

func describeType(it arvados.InstanceType) string {
	return fmt.Sprintf("%s{vcpus=%d ram=%d scratch=%d price=%g preemptible=%v}", it.Name, it.VCPUs, int64(it.RAM), int64(it.Scratch), it.Price, it.Preemptible)
}

// checkChoice compares one answer of the real ChooseInstanceType with the reference. Pure:
// callable from any goroutine.
func (s *sim) checkChoice(ctr *arvados.Container, got arvados.InstanceType, err error, where string) {
	w := s.w
	weak, strong := s.refChoice(ctr)
	w.Probe("type-choice-checked")
	table := func() string {
		var l []string
		for _, it := range s.types {
			l = append(l, describeType(it))
		}
		return strings.Join(l, " ") + fmt.Sprintf(" ReserveExtraRAM=%d", int64(s.cluster.Containers.ReserveExtraRAM))
	}
	if err != nil {
		if len(strong) > 0 {
			s.viol("C16", "error-although-a-type-is-adequate", "", "[%s] container %s: %v, but %s is adequate; table: %s", where, describeCtr(ctr), err, describeType(strong[0]), table())
			return
		}
		ce, ok := err.(ConstraintsNotSatisfiableError)
		if !ok {
			s.viol("C16", "unsatisfiable-without-type-list", "", "[%s] container %s: error %T %v does not carry the available types", where, describeCtr(ctr), err, err)
			return
		}
		have := map[string]int{}
		for _, t := range ce.AvailableTypes {
			have[t.Name]++
		}
		for _, it := range s.types {
			if have[it.Name] != 1 {
				s.viol("C16", "unsatisfiable-error-type-list-incomplete", "", "[%s] container %s: error lists %d types, %s appears %d times; table: %s", where, describeCtr(ctr), len(ce.AvailableTypes), it.Name, have[it.Name], table())
				return
			}
		}
		if len(ce.AvailableTypes) != len(s.types) {
			s.viol("C16", "unsatisfiable-error-type-list-incomplete", "", "[%s] error lists %d types, %d are configured", where, len(ce.AvailableTypes), len(s.types))
		}
		w.Probe("type-choice-unsatisfiable")
		return
	}
	if len(weak) == 0 {
		s.viol("C16", "type-returned-for-unsatisfiable-container", "", "[%s] container %s got %s although no configured type is adequate; table: %s", where, describeCtr(ctr), describeType(got), table())
		return
	}
	conf, ok := s.cluster.InstanceTypes[got.Name]
	if !ok || conf != got {
		s.viol("C16", "chosen-type-not-configured", "", "[%s] container %s got %s which is not an entry of the table %s", where, describeCtr(ctr), describeType(got), table())
		return
	}
	if !adequate(got, ctr, int64(s.cluster.Containers.ReserveExtraRAM), false) {
		s.viol("C16", "chosen-type-inadequate", "", "[%s] container %s got %s which does not satisfy its constraints; table: %s", where, describeCtr(ctr), describeType(got), table())
		return
	}
	for _, it := range strong {
		if it.Price < got.Price {
			s.viol("C16", "cheaper-adequate-type-exists", "", "[%s] container %s got %s but %s is adequate and cheaper; table: %s", where, describeCtr(ctr), describeType(got), describeType(it), table())
			return
		}
	}
	if len(weak) != len(strong) {
		w.Probe("type-choice-inside-rounding-interval")
	}
}

// ---- generators ----------------------------------------------------------------------------

func (s *sim) genTypes(maxTypes int, rich bool) {
	w := s.w
	n := 1 + w.Choose("ntypes", maxTypes)
	rams := []int64{1 << 30, 2 << 30, 4 << 30, 7 << 29, 8 << 30, 1000000000, 3840 * mib, 16 << 30}
	scr := []int64{0, 10000000000, 64 * mib * 3, 100 << 30, 64 * mib * 10}
	prices := []float64{0.1, 0.1, 0.2, 0.2, 0.5, 1, 1, 3}
	s.cluster.InstanceTypes = arvados.InstanceTypeMap{}
	for i := 0; i < n; i++ {
		it := arvados.InstanceType{Name: fmt.Sprintf("type%02d", i+1)}
		it.ProviderType = it.Name
		it.VCPUs = []int{1, 2, 4, 8, 16, 3}[w.Choose("t-vcpus", 6)]
		it.RAM = arvados.ByteSize(rams[w.Choose("t-ram", len(rams))])
		if rich {
			it.RAM += arvados.ByteSize(w.Choose("t-ram-odd", 3)) // 0,+1,+2 bytes: odd boundaries
		}
		it.Scratch = arvados.ByteSize(scr[(1+w.Choose("t-scratch", len(scr)))%len(scr)])
		it.IncludedScratch = it.Scratch
		it.Price = prices[w.Choose("t-price", len(prices))]
		if rich {
			it.Preemptible = w.Choose("t-preemptible", 3) == 2
		} else {
			it.Preemptible = w.Choose("t-preemptible", 8) == 7
		}
		s.cluster.InstanceTypes[it.Name] = it
		s.types = append(s.types, it)
	}
	sort.Slice(s.types, func(i, j int) bool { return s.types[i].Name < s.types[j].Name })
	s.cluster.Containers.ReserveExtraRAM = arvados.ByteSize([]int64{0, 256 * mib, 1 << 30, 1234567}[w.Choose("reserve-ram", 4)])
	var l []string
	for _, it := range s.types {
		l = append(l, describeType(it))
	}
	s.logf("types %s reserve=%d", strings.Join(l, " "), int64(s.cluster.Containers.ReserveExtraRAM))
}

var pdhHex = "0123456789abcdef0123456789abcdef"

// genConstraints draws a constraint vector around the boundary values of one type.
// boundary=false keeps it comfortably inside that type (C14/C15 workloads).
func (s *sim) genConstraints(r *vsim.Rand, boundary bool) arvados.Container {
	t := s.types[r.Intn(len(s.types))]
	reserve := int64(s.cluster.Containers.ReserveExtraRAM)
	var c arvados.Container
	c.SchedulingParameters.Preemptible = t.Preemptible
	d := func() int64 { // -1, 0, +1 (+2) around the boundary
		if !boundary {
			return 0
		}
		return int64(r.Intn(4)) - 1
	}
	c.RuntimeConstraints.VCPUs = t.VCPUs + int(d())
	if c.RuntimeConstraints.VCPUs < 1 {
		c.RuntimeConstraints.VCPUs = 1
	}
	// largest total need that 95% of the type's RAM still covers
	fit := int64(t.RAM) * 95 / 100
	need := fit + d()
	if !boundary {
		need = fit / int64(1+r.Intn(3))
	}
	need -= reserve
	if need < 2 {
		need = 2
	}
	c.RuntimeConstraints.KeepCacheRAM = []int64{0, 256 * mib, 1}[r.Intn(3)]
	if c.RuntimeConstraints.KeepCacheRAM >= need {
		c.RuntimeConstraints.KeepCacheRAM = 0
	}
	c.RuntimeConstraints.RAM = need - c.RuntimeConstraints.KeepCacheRAM
	// scratch: image first, tmp mounts fill up to the boundary
	var img int64
	switch r.Intn(4) {
	case 1:
		c.ContainerImage = pdhHex + "+" + strconv.Itoa(121+r.Intn(3)) // 121: no image; 122/123: one block
	case 2:
		k := int64(1 + r.Intn(4))
		c.ContainerImage = pdhHex + "+" + strconv.FormatInt(80+42*k+int64(r.Intn(3))-1, 10)
	case 3:
		c.ContainerImage = "arvados/jobs:latest" // not a PDH
	}
	img = refImageSize(c.ContainerImage)
	c.Mounts = map[string]arvados.Mount{"/keep": {Kind: "collection"}}
	avail := int64(t.Scratch)
	switch {
	case !boundary:
		if avail < 2*img {
			c.ContainerImage, img = "", 0
		}
		if avail > 0 {
			c.Mounts["/tmp"] = arvados.Mount{Kind: "tmp", Capacity: (avail - 2*img) / 2}
		}
	case r.Intn(2) == 0:
		// tmp dominates: tmp + img == avail + delta
		capa := avail - img + d()
		if capa < 0 {
			capa = 0
		}
		half := capa / 2
		c.Mounts["/tmp"] = arvados.Mount{Kind: "tmp", Capacity: half}
		c.Mounts["/out"] = arvados.Mount{Kind: "tmp", Capacity: capa - half}
	default:
		// image dominates (2*img) or nothing needed
		c.Mounts["/tmp"] = arvados.Mount{Kind: "tmp", Capacity: int64(r.Intn(2))}
	}
	if boundary && r.Intn(6) == 0 {
		c.SchedulingParameters.Preemptible = !t.Preemptible
	}
	return c
}

// genContainer adds one container to the API model.
func (s *sim) genContainer(r *vsim.Rand, boundaryPermille int) *apiCtr {
	n := len(s.api.uuids) + 1
	c := s.genConstraints(r, r.Intn(1000) < boundaryPermille)
	c.UUID = fmt.Sprintf("zzzzz-dz642-%015d", n)
	c.State = arvados.ContainerStateQueued
	c.Priority = []int64{500, 1, 2, 2, 10, 100, 500, 1000, 999, 0}[r.Intn(10)]
	c.CreatedAt = time.Now()
	ac := s.api.add(c)
	weak, _ := s.refChoice(&c)
	ac.unsat = len(weak) == 0
	it, err := ChooseInstanceType(s.cluster, &c) // pure: the same answer the queue will get
	ac.chosen = err == nil
	s.checkChoice(&c, it, err, "generator")
	tn := "-"
	if err == nil {
		tn = it.Name
	}
	s.logf("container %s prio=%d type=%s unsat=%v %s", shortUUID(c.UUID), c.Priority, tn, ac.unsat, describeCtr(&c))
	return ac
}
