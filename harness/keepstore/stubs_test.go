//go:build go1.26

package main

import "verif.local/vsim"

func scenC01(w *vsim.World, spec *vsim.Spec) {}
func scenC04(w *vsim.World, spec *vsim.Spec) {}
func scenC07(w *vsim.World, spec *vsim.Spec) {}
