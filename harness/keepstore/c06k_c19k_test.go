//go:build go1.26

package main

import (
	"crypto/hmac"
	"crypto/sha1"
	"encoding/json"
	"fmt"
	"os"
	"regexp"
	"strings"
	"syscall"
	"time"

	"git.arvados.org/arvados.git/sdk/go/arvados"
	"git.arvados.org/arvados.git/sdk/go/arvadosclient"
	"git.arvados.org/arvados.git/sdk/go/keepclient"
	"verif.local/vsim"
	"verif.local/vsim/vsimfs"
)

// ---- C06K: keepstore's index writer ends with the blank line only after every volume was
// indexed completely (the writer-side clause of C06) --------------------------------------

func scenC06K(w *vsim.World, spec *vsim.Spec) {
	d := newRunDirs(w)
	if d == nil {
		return
	}
	defer d.cleanup()
	vols := drawVolumes(w, d, 3, false)
	t0 := time.Now()
	nblk := w.Choose("blocks", 9)
	truth := map[string]map[string]int{} // volume -> hash -> size
	for _, vs := range vols {
		truth[vs.name] = map[string]int{}
	}
	var hashes []string
	for i := 0; i < nblk; i++ {
		b := mkBlock(60+i, 1+w.Choose("size", 30))
		h := md5hex(b)
		hashes = append(hashes, h)
		for _, vs := range vols {
			if w.Chance("placed", 600) {
				plant(vs.root, h, b, t0.Add(-time.Duration(1+i)*time.Minute))
				truth[vs.name][h] = len(b)
			}
		}
	}
	// things that must never be listed
	if len(hashes) > 0 {
		h := hashes[0]
		p := blockPathIn(vols[0].root, h)
		os.MkdirAll(p[:len(p)-33], 0755)
		os.WriteFile(p[:len(p)-32]+"tmp"+h+"123", []byte("partial"), 0644)
		os.WriteFile(p+".trash.99999999999", []byte("trashed"), 0644)
	}
	cluster := mkCluster(time.Hour, time.Hour, true, false)
	node := startNode(w, 1, cluster, vols)
	type req struct {
		path   string
		vol    int // -1 = all volumes
		prefix string
		fault  int
	}
	var plan []req
	for len(plan) < 6 && (len(plan) == 0 || w.Choose("more", 4) != 0) {
		r := req{vol: -1, fault: w.Choose("fault-step", 30)} // 0 = no fault
		switch w.Choose("index-kind", 3) {
		case 0:
			r.path = "/index"
		case 1:
			if len(hashes) > 0 {
				r.prefix = hashes[w.Choose("prefix-of", len(hashes))][:1+w.Choose("prefix-len", 4)]
			}
			r.path = "/index/" + r.prefix
		default:
			r.vol = w.Choose("mount", len(vols))
			r.path = "/mounts/" + vols[r.vol].uuid + "/blocks"
		}
		plan = append(plan, r)
	}
	cur, step, hit := -1, 0, ""
	vsimfs.Director = func(w *vsim.World, s *vsimfs.Step) error {
		if cur < 0 || s.Node != node.name {
			return nil
		}
		step++
		if plan[cur].fault == 0 || step != plan[cur].fault {
			return nil
		}
		hit = s.Op
		w.Fault("index-eio-at-" + s.Op)
		return syscall.EIO
	}
	done := false
	w.Spawn("client", func() {
		for i, r := range plan {
			if w.Failed() {
				return
			}
			vsim.Yield("op", "client")
			cur, step, hit = i, 0, ""
			resp := node.do("GET", r.path, sysToken, nil)
			cur = -1
			ents, complete, bad := parseIndex(resp.body)
			w.Logf("index %s -> %d, %d bytes, complete=%v, fault hit=%q", r.path, resp.code, len(resp.body), complete, hit)
			if !complete {
				w.Probe("index-truncated")
				if hit == "" {
					w.Violation("c06k/index-incomplete-without-fault", "GET %s: the response does not end with the blank line although no error was injected (%q)", r.path, resp.body)
					return
				}
				continue
			}
			w.Probe("index-complete")
			if bad != "" {
				w.Violation("c06k/index-malformed-line", "GET %s: line %q", r.path, bad)
				return
			}
			// a response that ends with the blank line must be the COMPLETE listing
			want := map[string]bool{}
			for vi, vs := range vols {
				if r.vol >= 0 && r.vol != vi {
					continue
				}
				for h, sz := range truth[vs.name] {
					if strings.HasPrefix(h, r.prefix) {
						want[fmt.Sprintf("%s+%d", h, sz)] = true
					}
				}
			}
			got := map[string]bool{}
			for h, v := range ents {
				got[h+"+"+strings.Fields(v)[0]] = true
			}
			for _, k := range sortedKeys(want) {
				if !got[k] {
					w.Violation("c06k/complete-looking-index-omits-block", "GET %s ended with the blank line but omits %s (fault injected at %q): an index reader would take this for a complete index", r.path, k, hit)
					return
				}
			}
			for _, k := range sortedKeys(got) {
				if !want[k] {
					w.Violation("c06k/index-lists-unknown-entry", "GET %s lists %s, which is not a block on the indexed volumes", r.path, k)
					return
				}
			}
		}
		done = true
	})
	w.Run(nil)
	if w.Failed() || w.Truncated() {
		return
	}
	if !done {
		w.Violation("c06k/client-stuck", "%s", strings.Join(w.Blocked(), "; "))
		return
	}
	node.kill()
	w.Quiesce()
	w.SetEndState(fmt.Sprintf("%d index requests", len(plan)))
}

// ---- C19K: keepstore's +R proxy salts the caller's token before it leaves the cluster ----

var c19kSalted = regexp.MustCompile(`^[0-9a-f]{40}$`)

func c19kRefSalt(token, remote string) (string, string) { // forwarded token, or "" + reason for refusal
	p := strings.Split(token, "/")
	if len(p) < 3 || p[0] != "v2" {
		return "", "not a v2 token"
	}
	if c19kSalted.MatchString(p[2]) {
		if strings.HasPrefix(p[1], remote) {
			return token, ""
		}
		return "", "salted for another cluster"
	}
	m := hmac.New(sha1.New, []byte(p[2]))
	m.Write([]byte(remote))
	return fmt.Sprintf("v2/%s/%x", p[1], m.Sum(nil)), ""
}

func scenC19K(w *vsim.World, spec *vsim.Spec) {
	d := newRunDirs(w)
	if d == nil {
		return
	}
	defer d.cleanup()
	vols := drawVolumes(w, d, 2, true)
	cluster := mkCluster(time.Hour, time.Hour, true, false)
	remotes := []string{"zbbbb", "zcccc"}
	cluster.RemoteClusters = map[string]arvados.RemoteCluster{}
	for _, r := range remotes {
		cluster.RemoteClusters[r] = arvados.RemoteCluster{Host: r + ".example", Proxy: true, Scheme: "https"}
	}
	node := startNode(w, 1, cluster, vols)
	block := mkBlock(9, 1+w.Choose("size", 40))
	hash := md5hex(block)
	rnd := w.NewRand("secrets")
	const alnum = "0123456789abcdefghijklmnopqrstuvwxyz"
	mk := func(n int, hex bool) string {
		b := make([]byte, n)
		for i := range b {
			if hex {
				b[i] = "0123456789abcdef"[rnd.Intn(16)]
			} else {
				b[i] = alnum[rnd.Intn(36)]
			}
		}
		if !hex && n == 40 {
			b[0] = 'z' // certainly not hex
		}
		return string(b)
	}
	// cold: keepstore has not talked to the remote clusters yet; its proxy builds the API and Keep clients
	// itself (discovery document, keep_services/accessible) over the simulated network (rule R10)
	keepclient.VerifResetProcessCaches()
	defer keepclient.VerifResetProcessCaches()
	cold := w.Choose("cold-remote-clients", 3) == 2
	if cold {
		w.Probe("cold-remote-clients")
	}
	var secrets []string // every unsalted secret the workload creates
	var wire []string
	// two clients at once, remote Keep answering 503 now and then, the proxy's Keep clients retrying
	concurrent := w.Choose("concurrent-clients", 3) != 0
	okCreds := map[string][]string{} // remote cluster host -> reference credentials of the planned requests
	retries := 0
	if concurrent {
		retries = 1 + w.Choose("proxy-retries", 2)
	}
	net := vsim.NewNet(w, func(r *vsim.NetRequest) *vsim.NetReply {
		all := r.Method + " " + r.Host + r.Path + "?" + r.Query + "\n"
		for k, vs := range r.Header {
			all += k + ": " + strings.Join(vs, ",") + "\n"
		}
		all += string(r.Body)
		apiHost := !strings.HasPrefix(r.Host, "keep.")
		if !apiHost {
			wire = append(wire, all)
		}
		for _, s := range secrets {
			if strings.Contains(all, s) {
				w.ViolationSig("c19k/unsalted-secret-on-the-wire", "keepstore-remote-proxy", "keepstore forwarded a request to %s that contains the caller's unsalted secret: %q", r.Host, all)
			}
		}
		if apiHost {
			// the remote cluster's API server, asked by keepstore's own clients on first contact
			w.Probe("remote-api-request")
			cl := strings.SplitN(r.Host, ".", 2)[0]
			switch {
			case strings.HasPrefix(r.Path, "/discovery/"):
				return &vsim.NetReply{Status: 200, Body: []byte(`{"defaultCollectionReplication":1,"blobSignatureTtl":1209600}`), Latency: time.Millisecond}
			case strings.HasSuffix(r.Path, "/keep_services/accessible"):
				lj, _ := json.Marshal(map[string]interface{}{"items": []map[string]interface{}{{"uuid": cl + "-bi6l4-000000000000000", "service_host": "keep." + cl + ".example", "service_port": 443, "service_ssl_flag": true, "service_type": "proxy"}}})
				return &vsim.NetReply{Status: 200, Body: lj, Latency: time.Duration(1+w.Choose("lat", 20)) * time.Millisecond}
			}
			return &vsim.NetReply{Status: 404, Body: []byte("{}"), Latency: time.Millisecond}
		}
		if concurrent {
			// with interleaved requests a forwarded message is not attributed to one request: its credential
			// must be the reference salt of SOME token the workload presents for that remote
			ok := false
			for _, c := range okCreds[strings.SplitN(strings.TrimPrefix(r.Host, "keep."), ":", 2)[0]] {
				if strings.Contains(all, "Authorization: OAuth2 "+c+"\n") {
					ok = true
				}
			}
			if !ok {
				w.ViolationSig("c19k/forwarded-credential-differs-from-reference", "keepstore-remote-proxy", "a request forwarded to %s carries a credential that is the reference salt of no token presented for that cluster: %q", r.Host, all)
			}
		}
		rep := &vsim.NetReply{Status: 200, Body: block, Latency: time.Duration(1+w.Choose("lat", 20)) * time.Millisecond}
		if !strings.HasPrefix(r.Path, "/"+hash) {
			rep.Status, rep.Body = 404, []byte("no\n")
		}
		if concurrent && w.Chance("remote-keep-503", 300) {
			rep.Status, rep.Body = 503, []byte("busy\n")
			w.Fault("remote-keep-503")
		}
		return rep
	})
	// the remote clusters' Keep services, as service discovery would have found them
	rtr := node.h.(*router)
	rtr.remoteProxy.clients = map[string]*keepclient.KeepClient{}
	if cold {
		w.DefaultTransport = net
	}
	for _, r := range remotes {
		if cold {
			break
		}
		kc := &keepclient.KeepClient{Arvados: &arvadosclient.ArvadosClient{ApiServer: r + ".example", ApiToken: "xxx"}, Want_replicas: 1, Retries: retries, HTTPClient: net}
		lj, _ := json.Marshal(map[string]interface{}{"items": []map[string]interface{}{{"uuid": r + "-bi6l4-000000000000000", "service_host": "keep." + r + ".example", "service_port": 443, "service_ssl_flag": true, "service_type": "proxy"}}})
		if err := kc.LoadKeepServicesFromJSON(string(lj)); err != nil {
			w.Infra("%v", err)
			return
		}
		rtr.remoteProxy.clients[r] = kc
	}
	type req struct {
		token  string
		remote string
		kind   string
	}
	var plan []req
	for len(plan) < 6 && (len(plan) == 0 || w.Choose("more", 4) != 0) {
		remote := remotes[w.Choose("remote", len(remotes))]
		owner := []string{"zaaaa", remote, remotes[0], "zdddd"}[w.Choose("owner", 4)]
		uuid := owner + "-gj3su-" + mk(15, false)
		var r req
		r.remote = remote
		switch k := w.Choose("token-kind", 11); k {
		case 8, 9, 10: // unsalted secrets that consist of hex digits only, of any length but 40
			s := mk([]int{41, 39, 56}[k-8], true)
			secrets = append(secrets, s)
			r.token, r.kind = "v2/"+uuid+"/"+s, fmt.Sprintf("v2-hex-%d", len(s))
		case 0:
			s := mk(50, false)
			secrets = append(secrets, s)
			r.token, r.kind = "v2/"+uuid+"/"+s, "v2-50"
		case 1:
			s := mk(39, false)
			secrets = append(secrets, s)
			r.token, r.kind = "v2/"+uuid+"/"+s, "v2-39"
		case 2:
			s := mk(41, false)
			secrets = append(secrets, s)
			r.token, r.kind = "v2/"+uuid+"/"+s, "v2-41"
		case 3:
			s := mk(40, false)
			secrets = append(secrets, s)
			r.token, r.kind = "v2/"+uuid+"/"+s, "v2-40-not-hex"
		case 4:
			r.token, r.kind = "v2/"+uuid+"/"+mk(40, true), "v2-already-salted"
		case 5:
			s := mk(50, false)
			secrets = append(secrets, s)
			r.token, r.kind = "v2/"+uuid+"/"+s+"/extra/segments", "v2-extra-segments"
		case 6:
			r.token, r.kind = mk(45, false), "legacy"
			secrets = append(secrets, r.token) // a legacy token IS its secret
		default:
			r.token, r.kind = "opaque-"+mk(10, false), "opaque"
		}
		plan = append(plan, r)
		if want, refuse := c19kRefSalt(r.token, r.remote); refuse == "" {
			okCreds[r.remote+".example"] = append(okCreds[r.remote+".example"], want)
		}
	}
	if concurrent {
		// the plan is split between two clients; only the global oracles (wire monitor, reference set) apply
		done2 := 0
		for c := 0; c < 2; c++ {
			c := c
			w.Spawn(fmt.Sprintf("client%d", c+1), func() {
				defer func() { done2++ }()
				for i, r := range plan {
					if i%2 != c || w.Failed() {
						continue
					}
					vsim.Yield("op", "client")
					loc := fmt.Sprintf("%s+%d+R%s-%040x@5f5e1000", hash, len(block), r.remote, 7)
					resp := node.do("GET", "/"+loc, r.token, nil)
					w.Logf("client%d request %d kind=%s -> %d", c+1, i, r.kind, resp.code)
					w.Probe("token-" + r.kind)
					w.Probe("concurrent-proxy-request")
				}
			})
		}
		w.Run(func() bool { return done2 == 2 })
		if w.Failed() || w.Truncated() {
			return
		}
		if done2 != 2 {
			w.Violation("c19k/client-stuck", "%s", strings.Join(w.Blocked(), "; "))
			return
		}
		node.kill()
		w.Quiesce()
		w.SetEndState(fmt.Sprintf("%d concurrent requests", len(plan)))
		return
	}
	done := false
	w.Spawn("client", func() {
		for i, r := range plan {
			if w.Failed() {
				return
			}
			vsim.Yield("op", "client")
			n0 := len(wire)
			loc := fmt.Sprintf("%s+%d+R%s-%040x@5f5e1000", hash, len(block), r.remote, 7)
			resp := node.do("GET", "/"+loc, r.token, nil)
			want, refuse := c19kRefSalt(r.token, r.remote)
			w.Logf("request %d kind=%s -> %d, %d requests forwarded", i, r.kind, resp.code, len(wire)-n0)
			w.Probe("token-" + r.kind)
			for _, msg := range wire[n0:] {
				if refuse != "" {
					w.ViolationSig("c19k/forwarded-unforwardable-token", "keepstore-remote-proxy", "token kind %s (%s) must not be forwarded, yet a request went to the remote: %q", r.kind, refuse, msg)
					return
				}
				if !strings.Contains(msg, "Authorization: OAuth2 "+want+"\n") {
					w.ViolationSig("c19k/forwarded-credential-differs-from-reference", "keepstore-remote-proxy", "token kind %s: forwarded request does not carry the reference credential %q: %q", r.kind, want, msg)
					return
				}
			}
			if refuse == "" && len(wire) == n0 {
				w.Violation("c19k/valid-token-not-forwarded", "token kind %s: no request reached the remote (status %d %q)", r.kind, resp.code, trimb(resp.body))
				return
			}
			if refuse == "" && (resp.code != 200 || string(resp.body) != string(block)) {
				w.Violation("c19k/remote-block-not-relayed", "token kind %s: status %d, %d bytes", r.kind, resp.code, len(resp.body))
				return
			}
		}
		done = true
	})
	w.Run(func() bool { return done })
	if w.Failed() || w.Truncated() {
		return
	}
	if !done {
		w.Violation("c19k/client-stuck", "%s", strings.Join(w.Blocked(), "; "))
		return
	}
	node.kill()
	w.Quiesce()
	w.SetEndState(fmt.Sprintf("%d requests", len(plan)))
}
