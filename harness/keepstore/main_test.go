//go:build go1.26

//go:debug asynctimerchan=0

package main

import (
	"testing"

	"verif.local/vsim"
)

func TestVerif(t *testing.T) {
	vsim.Main(t, map[string]vsim.Scenario{
		"C01":  scenC01,
		"C02":  scenC02,
		"C04":  scenC04,
		"C07":  scenC07,
		"C06K": scenC06K,
		"C19K": scenC19K,
	})
}
