//go:build go1.26

package main

import (
	"bytes"
	"context"
	"crypto/md5"
	"fmt"
	"io"
	"io/ioutil"
	"net/http"
	"os"
	"path/filepath"
	"sort"
	"strings"
	"sync"
	"time"

	"git.arvados.org/arvados.git/sdk/go/arvados"
	"git.arvados.org/arvados.git/sdk/go/ctxlog"
	"github.com/prometheus/client_golang/prometheus"
	"github.com/sirupsen/logrus"
	"verif.local/vsim"
	"verif.local/vsim/vsimfs"
)

// ---- a simulated keepstore node: real router + handlers + UnixVolumes on real tmpfs -----

type volSpec struct {
	root      string // absolute
	name      string // "v0"...
	uuid      string
	readOnly  bool
	serialize bool
}

type ksNode struct {
	w       *vsim.World
	gen     int
	name    string
	cluster *arvados.Cluster
	vols    []volSpec
	volmgr  *RRVolumeManager
	h       http.Handler
	trashq  *WorkQueue
	pullq   *WorkQueue
	crashed chan struct{}
	reqMu   sync.Mutex
	reqSeq  map[string]int
}

var (
	bufStashMu sync.Mutex
	bufStash   [][]byte
	bufAll     [][]byte
)

const sysToken = "systemroottokenxxxxxxxxxxxxxxxxxxxxxxxxxxxxxxxxxxx"

func discardLogger() logrus.FieldLogger {
	l := logrus.New()
	l.Out = ioutil.Discard
	return l
}

type runDirs struct{ base string }

// newRunDirs makes a fresh base directory on tmpfs for one run.
func newRunDirs(w *vsim.World) *runDirs {
	parent := "/dev/shm"
	if _, err := os.Stat(parent); err != nil {
		parent = os.TempDir()
	}
	base, err := os.MkdirTemp(parent, "vks")
	if err != nil {
		w.Infra("mkdtemp: %v", err)
		return nil
	}
	vsimfs.Reset(base)
	return &runDirs{base}
}

func (d *runDirs) cleanup() { os.RemoveAll(d.base) }

func mkCluster(ttl, trashLifetime time.Duration, blobTrash, signing bool) *arvados.Cluster {
	c := &arvados.Cluster{}
	c.SystemRootToken = sysToken
	c.Collections.BlobSigningTTL = arvados.Duration(ttl)
	c.Collections.BlobTrashLifetime = arvados.Duration(trashLifetime)
	c.Collections.BlobTrash = blobTrash
	c.Collections.BlobSigning = signing
	c.Collections.BlobSigningKey = "zfhgfenhffzltr9dixws36j1yhksjoll2grmku38mi7yxd66h5j4q9w4jzanezacp8s6q0ro3hxakfye02152hncy6zml2ed0uc"
	c.Collections.BlobDeleteConcurrency = 2
	c.Collections.BlobTrashConcurrency = 1
	c.API.MaxKeepBlobBuffers = 4
	return c
}

// startNode builds a fresh keepstore instance (volumes, volume manager, queues, trash
// worker, router) over the given directories: what a new process does at start-up.
func startNode(w *vsim.World, gen int, cluster *arvados.Cluster, vols []volSpec) *ksNode {
	n := &ksNode{w: w, gen: gen, name: fmt.Sprintf("ks%d", gen), cluster: cluster, vols: vols, crashed: make(chan struct{})}
	logger := discardLogger()
	// a new process has a new buffer pool (buffers held by killed handlers are gone with them);
	// channels must also belong to the current bubble
	bufs = newBufferPool(logger, 8, BlockSize)
	// 64 MiB buffers are recycled across nodes and runs of this process (zeroing fresh ones
	// dominated the run time); the real server recycles them through sync.Pool as well.
	bufStashMu.Lock()
	bufStash = append([][]byte(nil), bufAll...)
	bufStashMu.Unlock()
	bufs.Pool.New = func() interface{} {
		bufStashMu.Lock()
		defer bufStashMu.Unlock()
		if n := len(bufStash); n > 0 {
			b := bufStash[n-1]
			bufStash = bufStash[:n-1]
			return b[:BlockSize]
		}
		b := make([]byte, BlockSize)
		bufAll = append(bufAll, b)
		return b
	}
	reg := prometheus.NewRegistry()
	metrics := newVolumeMetricsVecs(reg)
	vm := &RRVolumeManager{iostats: map[Volume]*ioStats{}, mountMap: map[string]*VolumeMount{}}
	for _, vs := range vols {
		v := &UnixVolume{Root: vs.root, Serialize: vs.serialize, cluster: cluster, volume: arvados.Volume{ReadOnly: vs.readOnly, Driver: "Directory"}, logger: logger, metrics: metrics}
		if vs.serialize {
			v.locker = &vsim.Mutex{}
		}
		v.os.stats.opsCounters, v.os.stats.errCounters, v.os.stats.ioBytes = metrics.getCounterVecsFor(prometheus.Labels{"device_id": vs.name})
		mnt := &VolumeMount{KeepMount: arvados.KeepMount{UUID: vs.uuid, DeviceID: vs.name, ReadOnly: vs.readOnly, Replication: 1, StorageClasses: map[string]bool{"default": true}}, Volume: v}
		vm.iostats[v] = &ioStats{}
		vm.mounts = append(vm.mounts, mnt)
		vm.mountMap[vs.uuid] = mnt
		vm.readables = append(vm.readables, mnt)
		if !vs.readOnly {
			vm.writables = append(vm.writables, mnt)
		}
	}
	n.volmgr = vm
	w.RootNode(n.name)
	n.pullq = NewWorkQueue()
	n.trashq = NewWorkQueue()
	w.SpawnOn(n.name, n.name+".trashworker", func() { RunTrashWorker(vm, logger, cluster, n.trashq) })
	n.h = MakeRESTRouter(ctxlog.Context(context.Background(), logger), cluster, reg, vm, n.pullq, n.trashq)
	w.RootNode("")
	return n
}

// kill = SIGKILL: every task of the node stops where it is; completed syscalls are durable.
func (n *ksNode) kill() {
	select {
	case <-n.crashed:
		return
	default:
	}
	close(n.crashed)
	n.w.KillNode(n.name)
}

// closeNotifyRecorder is an http.ResponseWriter whose client can hang up.
type closeNotifyRecorder struct {
	hdr    http.Header
	code   int
	body   bytes.Buffer
	hangup chan bool
	slow   bool // a slow reader: the handler's Write is taken in two pieces with a scheduling point between them
}

// slowReaders (set per run by a scenario, on the root, before the clients start): every response is
// read slowly, so that other requests are served while a response is still being written.
var slowReaders bool

func newRecorder() *closeNotifyRecorder {
	return &closeNotifyRecorder{hdr: http.Header{}, hangup: make(chan bool, 1)}
}
func (r *closeNotifyRecorder) Header() http.Header { return r.hdr }
func (r *closeNotifyRecorder) WriteHeader(c int) {
	if r.code == 0 {
		r.code = c
	}
}
func (r *closeNotifyRecorder) Write(p []byte) (int, error) {
	if r.code == 0 {
		r.code = 200
	}
	if (r.slow || slowReaders) && len(p) > 1 {
		h := len(p) / 2
		r.body.Write(p[:h])
		vsim.Yield("resp-write", "slow reader")
		r.body.Write(p[h:])
		return len(p), nil
	}
	return r.body.Write(p)
}
func (r *closeNotifyRecorder) CloseNotify() <-chan bool { return r.hangup }

type ksResp struct {
	code    int
	body    []byte
	hdr     http.Header
	crashed bool
	rec     *closeNotifyRecorder
	reqID   string // id of the node task that served the request
}

// do performs one request against the node from the calling (client) task. The handler
// runs in a task that belongs to the node, so a kill takes it down mid-request.
func (n *ksNode) do(method, path, token string, body []byte) *ksResp {
	return n.doRec(method, path, token, body, newRecorder())
}

func (n *ksNode) doRec(method, path, token string, body []byte, rec *closeNotifyRecorder) *ksResp {
	select {
	case <-n.crashed:
		return &ksResp{crashed: true}
	default:
	}
	var rdr io.Reader
	if body != nil {
		rdr = bytes.NewReader(body)
	}
	req, err := http.NewRequest(method, "http://keep.example"+path, rdr)
	if err != nil {
		n.w.Infra("NewRequest: %v", err)
		return &ksResp{crashed: true}
	}
	if body != nil {
		req.ContentLength = int64(len(body))
	}
	if token != "" {
		req.Header.Set("Authorization", "OAuth2 "+token)
	}
	id := "req"
	if t := vsim.CurrentTask(); t != nil {
		id = t.ID
	}
	n.reqMu.Lock()
	if n.reqSeq == nil {
		n.reqSeq = map[string]int{}
	}
	n.reqSeq[id]++ // per client: request ids must not depend on which client got here first
	seq := n.reqSeq[id]
	n.reqMu.Unlock()
	done := make(chan struct{})
	reqID := fmt.Sprintf("%s>%s.%d", id, n.name, seq)
	n.w.SpawnOn(n.name, reqID, func() {
		n.h.ServeHTTP(rec, req)
		close(done)
	})
	select {
	case <-done:
		code := rec.code
		if code == 0 {
			code = 200
		}
		return &ksResp{code: code, body: rec.body.Bytes(), hdr: rec.hdr, rec: rec, reqID: reqID}
	case <-n.crashed:
		return &ksResp{crashed: true, rec: rec}
	}
}

func blockPathIn(root, hash string) string { return filepath.Join(root, hash[:3], hash) }

func md5hex(b []byte) string { return fmt.Sprintf("%x", md5.Sum(b)) }

// plant writes a file the way the fault injector / an earlier life of the server would
// have left it: directly, with an explicit (simulated-clock) mtime.
func plant(root, hash string, content []byte, mtime time.Time) error {
	p := blockPathIn(root, hash)
	if err := os.MkdirAll(filepath.Dir(p), 0755); err != nil {
		return err
	}
	if err := os.WriteFile(p, content, 0644); err != nil {
		return err
	}
	return os.Chtimes(p, mtime, mtime)
}

// snapshot lists every file of a volume: relative name -> "size mtime-ns".
func snapshot(root string) map[string]string {
	out := map[string]string{}
	filepath.Walk(root, func(p string, info os.FileInfo, err error) error {
		if err != nil || info.IsDir() {
			return nil
		}
		rel, _ := filepath.Rel(root, p)
		out[rel] = fmt.Sprintf("%d %d", info.Size(), info.ModTime().UnixNano())
		return nil
	})
	return out
}

func sortedKeys[V any](m map[string]V) []string {
	ks := make([]string, 0, len(m))
	for k := range m {
		ks = append(ks, k)
	}
	sort.Strings(ks)
	return ks
}

// parseIndex parses an index response; complete=false if the terminating blank line is missing.
func parseIndex(body []byte) (entries map[string]string, complete bool, bad string) {
	entries = map[string]string{}
	s := string(body)
	if !strings.HasSuffix(s, "\n\n") && s != "\n" {
		return entries, false, ""
	}
	for _, line := range strings.Split(strings.TrimSuffix(s, "\n"), "\n") {
		if line == "" {
			continue
		}
		f := strings.Fields(line)
		if len(f) != 2 || !strings.Contains(f[0], "+") {
			return entries, true, line
		}
		hs := strings.SplitN(f[0], "+", 2)
		entries[hs[0]] = hs[1] + " " + f[1]
	}
	return entries, true, ""
}
