//go:build go1.26

package main

import (
	"bytes"
	"fmt"
	"os"
	"path/filepath"
	"strings"
	"syscall"
	"time"

	"verif.local/vsim"
	"verif.local/vsim/vsimfs"
)

// ---- C02: PUT is all-or-nothing and survives process death ----------------------------

func mkBlock(seed, size int) []byte {
	b := make([]byte, size)
	for i := range b {
		b[i] = byte((seed*131 + i*17) % 253)
	}
	if size > 0 {
		b[0] = byte(seed)
	}
	return b
}

func drawVolumes(w *vsim.World, d *runDirs, maxVols int, needWritable bool) []volSpec {
	n := 1 + w.Choose("volumes", maxVols)
	var vols []volSpec
	anyW := false
	for i := 0; i < n; i++ {
		vs := volSpec{root: filepath.Join(d.base, fmt.Sprintf("v%d", i)), name: fmt.Sprintf("v%d", i), uuid: fmt.Sprintf("zzzzz-nyw5e-%015d", i)}
		vs.readOnly = w.Chance(fmt.Sprintf("v%d-readonly", i), 250)
		vs.serialize = w.Chance(fmt.Sprintf("v%d-serialize", i), 300)
		if !vs.readOnly {
			anyW = true
		}
		os.MkdirAll(vs.root, 0755)
		vols = append(vols, vs)
	}
	if needWritable && !anyW {
		vols[0].readOnly = false
	}
	return vols
}

func scenC02(w *vsim.World, spec *vsim.Spec) {
	d := newRunDirs(w)
	if d == nil {
		return
	}
	defer d.cleanup()
	vols := drawVolumes(w, d, 2, true)
	chunk := []int{1 << 16, 1, 3, 16}[w.Choose("chunk", 4)]
	vsimfs.ChunkSize = chunk
	sizes := []int{5, 0, 1, 2, chunk - 1, chunk, chunk + 1, 3*chunk + 1, 100}
	size := sizes[w.Choose("size", len(sizes))]
	if size < 0 {
		size = 0
	}
	if size > 5000 {
		size = 5000
	}
	block := mkBlock(7, size)
	hash := md5hex(block)
	t0 := time.Now()
	// pre-existing copies: none / intact / corrupt / in trash
	planted := map[string][]byte{} // volume name -> bytes the injector left at the block path
	for _, vs := range vols {
		switch w.Choose("pre-"+vs.name, 4) {
		case 1:
			planted[vs.name] = block
			plant(vs.root, hash, block, t0.Add(-time.Hour))
			w.Probe("pre-existing-intact")
		case 2:
			c := append([]byte(nil), block...)
			switch w.Choose("corruption", 3) {
			case 0:
				if len(c) > 0 {
					c[w.Choose("flip-pos", len(c))] ^= 0x10
				} else {
					c = []byte{1}
				}
			case 1:
				c = c[:len(c)/2]
				if len(block) < 2 {
					c = append(c, 9, 9)
				}
			default:
				c = append(c, 'x')
			}
			planted[vs.name] = c
			plant(vs.root, hash, c, t0.Add(-time.Hour))
			w.Probe("pre-existing-corrupt")
		case 3:
			p := blockPathIn(vs.root, hash) + fmt.Sprintf(".trash.%d", t0.Add(time.Hour).Unix())
			os.MkdirAll(filepath.Dir(p), 0755)
			os.WriteFile(p, block, 0644)
			w.Probe("pre-existing-in-trash")
		}
	}
	cluster := mkCluster(2*time.Hour, 24*time.Hour, true, false)
	node := startNode(w, 1, cluster, vols)
	nclients := 1 + w.Choose("clients", 2)
	faultKind := w.Choose("fault-kind", 5) // 0 none, 1 kill at step, 2 hang up at step, 3 error at step, 4 kill right after the ack
	faultStep := 1 + w.Choose("fault-step", 40)
	recs := make([]*closeNotifyRecorder, nclients)
	for i := range recs {
		recs[i] = newRecorder()
	}
	steps := 0
	fired := false
	vsimfs.Director = func(w *vsim.World, s *vsimfs.Step) error {
		if s.Node != node.name {
			return nil
		}
		steps++
		if fired || steps != faultStep {
			return nil
		}
		switch faultKind {
		case 1:
			fired = true
			w.Fault("kill-at-step")
			w.Probe("kill-at-" + s.Op)
			w.Logf("KILL at step %d (%s %s)", steps, s.Op, s.Path)
			node.kill()
			return vsimfs.ErrCrash
		case 2:
			fired = true
			w.Fault("client-hangup-at-step")
			w.Probe("hangup-at-" + s.Op)
			for _, r := range recs {
				select {
				case r.hangup <- true:
				default:
				}
			}
		case 3:
			fired = true
			w.Fault("error-at-step")
			w.Probe("error-at-" + s.Op)
			errno := []error{syscall.EIO, syscall.ENOSPC, syscall.EACCES}[w.Choose("errno", 3)]
			if (s.Op == "copy-write" || s.Op == "write") && s.N > 1 && w.Chance("short-write", 500) {
				return &vsimfs.Short{N: w.Choose("short-n", s.N), Err: errno}
			}
			return errno
		}
		return nil
	}
	results := make([]*ksResp, nclients)
	for i := 0; i < nclients; i++ {
		i := i
		w.Spawn(fmt.Sprintf("c%d", i), func() {
			results[i] = node.doRec("PUT", "/"+hash, "usertoken", block, recs[i])
		})
	}
	w.Run(nil)
	if w.Failed() || w.Truncated() {
		return
	}
	acked := false
	for i, r := range results {
		if r == nil {
			select {
			case <-node.crashed:
				continue
			default:
			}
			w.Violation("c02/put-never-returned", "client %d: %s", i, strings.Join(w.Blocked(), "; "))
			return
		}
		if !r.crashed && r.code == 200 {
			acked = true
			if !strings.HasPrefix(string(r.body), fmt.Sprintf("%s+%d", hash, len(block))) {
				w.Violation("c02/ack-locator", "PUT 200 body %q does not start with %s+%d", r.body, hash, len(block))
				return
			}
		}
	}
	w.Logf("puts done acked=%v steps=%d fired=%v", acked, steps, fired)
	if acked {
		w.Probe("acked")
	} else {
		w.Probe("not-acked")
	}
	if faultKind == 4 {
		w.Fault("kill-after-ack")
	}
	vsimfs.Director = nil
	node.kill() // the old process always ends here (SIGKILL: nothing is flushed or cleaned up)
	w.Quiesce()
	// ---- a new process on the same volumes -------------------------------------------------
	node2 := startNode(w, 2, cluster, vols)
	ok := false
	w.Spawn("checker", func() {
		g := node2.do("GET", "/"+hash, "usertoken", nil)
		h := node2.do("HEAD", "/"+hash, "usertoken", nil)
		if acked {
			if g.code != 200 || !bytes.Equal(g.body, block) {
				w.Violation("c02/acknowledged-block-lost", "PUT was acknowledged, but after kill+restart GET returns %d with %d bytes (block has %d)", g.code, len(g.body), len(block))
				return
			}
		} else if g.code == 200 && !bytes.Equal(g.body, block) {
			w.Violation("c02/partial-or-mixed-data-served", "unacknowledged PUT: after restart GET returns 200 with %d bytes that are not the block (%d bytes)", len(g.body), len(block))
			return
		}
		if h.code == 200 && h.hdr.Get("Content-Length") != fmt.Sprint(len(block)) {
			w.Violation("c02/head-wrong-size", "HEAD 200 reports Content-Length %q, block has %d bytes", h.hdr.Get("Content-Length"), len(block))
			return
		}
		if (g.code == 200) != (h.code == 200) {
			w.Violation("c02/get-head-disagree", "GET %d vs HEAD %d", g.code, h.code)
			return
		}
		// the index lists only complete blocks with their true sizes; temp files are never visible
		paths := []string{"/index"}
		for _, vs := range vols {
			paths = append(paths, "/mounts/"+vs.uuid+"/blocks")
		}
		for _, p := range paths {
			ix := node2.do("GET", p, sysToken, nil)
			if ix.code != 200 {
				w.Violation("c02/index-failed", "GET %s: %d", p, ix.code)
				return
			}
			if strings.Contains(string(ix.body), "tmp") {
				w.Violation("c02/temp-file-indexed", "index %s lists a temporary file: %q", p, ix.body)
				return
			}
			ents, complete, bad := parseIndex(ix.body)
			if !complete || bad != "" {
				w.Violation("c02/index-malformed", "index %s incomplete=%v bad line %q", p, !complete, bad)
				return
			}
			for _, hh := range sortedKeys(ents) {
				if hh != hash {
					w.Violation("c02/index-unknown-block", "index %s lists %s which nobody stored", p, hh)
					return
				}
			}
		}
		// on-disk truth per volume: the file at the block path is the complete block or what the injector planted
		for _, vs := range vols {
			b, err := os.ReadFile(blockPathIn(vs.root, hash))
			if err != nil {
				continue
			}
			if !bytes.Equal(b, block) && !bytes.Equal(b, planted[vs.name]) {
				w.Violation("c02/partial-block-visible", "volume %s holds a %d-byte file under the block name that is neither the complete block (%d bytes) nor a copy the fault injector placed", vs.name, len(b), len(block))
				return
			}
			ix := node2.do("GET", "/mounts/"+vs.uuid+"/blocks", sysToken, nil)
			ents, _, _ := parseIndex(ix.body)
			if e, ok := ents[hash]; ok {
				if !strings.HasPrefix(e, fmt.Sprintf("%d ", len(b))) {
					w.Violation("c02/index-wrong-size", "volume %s: index says %q, file has %d bytes", vs.name, e, len(b))
					return
				}
			} else {
				w.Violation("c02/index-omits-block", "volume %s holds the block file but its index does not list it", vs.name)
				return
			}
		}
		ok = true
	})
	w.Run(nil)
	if w.Failed() || w.Truncated() {
		return
	}
	if !ok {
		w.Violation("c02/checker-stuck", "%s", strings.Join(w.Blocked(), "; "))
		return
	}
	node2.kill()
	w.Quiesce()
	w.SetEndState(fmt.Sprintf("acked=%v fault=%d fired=%v", acked, faultKind, fired))
}
