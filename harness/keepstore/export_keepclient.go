//go:build verif

package keepclient

// VerifResetProcessCaches empties the package's process-global caches (service lists per API
// host with their polling goroutines, default HTTP clients): a new keepstore process starts with
// none of them, and entries made in an earlier simulated run belong to a world that is gone.
func VerifResetProcessCaches() {
	svcListCacheMtx.Lock()
	svcListCache = map[string]cachedSvcList{}
	svcListCacheMtx.Unlock()
	defaultClientMtx.Lock()
	defaultClient = map[bool]map[bool]HTTPClient{
		false: {},
		true:  {},
	}
	defaultClientMtx.Unlock()
}
