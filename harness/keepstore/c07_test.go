//go:build go1.26

package main

import (
	"bytes"
	"crypto/hmac"
	"crypto/sha1"
	"fmt"
	"regexp"
	"strconv"
	"strings"
	"time"

	"git.arvados.org/arvados.git/sdk/go/arvados"
	"verif.local/vsim"
)

// ---- C07: block signatures ------------------------------------------------------------

// refSignature is written from services/api/app/models/blob.rb:
//
//	OpenSSL::HMAC.hexdigest('sha1', key, [blob_hash, api_token, timestamp_hex, ttl_hex].join('@'))
func refSignature(key, hash, token, expHex string, ttl time.Duration) string {
	m := hmac.New(sha1.New, []byte(key))
	m.Write([]byte(strings.Join([]string{hash, token, expHex, strconv.FormatInt(int64(ttl/time.Second), 16)}, "@")))
	return fmt.Sprintf("%x", m.Sum(nil))
}

var refSigHint = regexp.MustCompile(`^A([0-9a-f]{40})@([0-9a-f]{8})$`)

// refVerify: "ok", "expired", "invalid" or "unsure" (inside the expiry second, where the two
// reference implementations round differently).
func refVerify(key, locator, token string, ttl time.Duration, now time.Time) string {
	parts := strings.Split(locator, "+")
	hash := parts[0]
	var sig, exp string
	n := 0
	for _, h := range parts[1:] {
		if strings.HasPrefix(h, "A") {
			n++
			m := refSigHint.FindStringSubmatch(h)
			if m == nil {
				return "invalid"
			}
			sig, exp = m[1], m[2]
		}
	}
	if n != 1 {
		return "invalid"
	}
	e, err := strconv.ParseInt(exp, 16, 64)
	if err != nil {
		return "invalid"
	}
	// "before the expiry time": the Go implementation is judged to the nanosecond (the API server's Ruby
	// code compares whole seconds and still accepts during the expiry second; that second is C07's business
	// only for the Go side)
	if exp := time.Unix(e, 0); now.After(exp) {
		return "expired"
	} else if now.Equal(exp) {
		return "unsure"
	}
	if sig != refSignature(key, hash, token, exp, ttl) {
		return "invalid"
	}
	return "ok"
}

func scenC07(w *vsim.World, spec *vsim.Spec) {
	d := newRunDirs(w)
	if d == nil {
		return
	}
	defer d.cleanup()
	vols := drawVolumes(w, d, 2, true)
	ttl := []time.Duration{2 * time.Hour, time.Minute, 14 * 24 * time.Hour, 3 * time.Second}[w.Choose("ttl", 4)]
	cluster := mkCluster(ttl, 24*time.Hour, true, true)
	key := cluster.Collections.BlobSigningKey
	node := startNode(w, 1, cluster, vols)
	w.SetMaxIdle(60 * 24 * time.Hour)
	tokens := []string{"usertoken1", "v2/zzzzz-gj3su-000000000000000/2nrv0lx5kqbsjz4nvjq0bgq4p", "odd@token+with@signs", "x"}
	token := tokens[w.Choose("token", len(tokens))]
	other := tokens[(w.Choose("other-token", len(tokens)-1)+1+indexOf(tokens, token))%len(tokens)]
	block := mkBlock(3, 1+w.Choose("size", 50))
	hash := md5hex(block)
	type probe struct {
		kind int // 0 as-is 1 wrong token 2 perturb one char 3 extra hints around 4 signature removed 5 no token 6 uppercase signature 7 signed by the reference with an expiry across the whole 8-hex-digit range
		pos  int
		chr  int
		adv  int // advance the clock first: 0 none, 1 to expiry-2s, 2 to expiry+2s, 3 small, 4 to a point inside the expiry second
	}
	var plan []probe
	for len(plan) < 12 && (len(plan) == 0 || w.Choose("more", 6) != 0) {
		plan = append(plan, probe{kind: w.Choose("probe-kind", 8), pos: w.Choose("pos", 60), chr: w.Choose("chr", 16), adv: w.Choose("advance", 5)})
	}
	// concurrent signers and verifiers: the signing code is lock-free; with statement-level
	// preemption (rule R9 in blob_signature.go) its unsynchronised sections interleave
	extras := w.Choose("concurrent-clients", 3)
	w.PreemptOn = extras > 0
	extraDone := 0
	for x := 1; x <= extras; x++ {
		x := x
		xtok := tokens[w.Choose("extra-token", len(tokens))]
		xblock := mkBlock(3+x, 1+w.Choose("extra-size", 50))
		rounds := 1 + w.Choose("extra-rounds", 4)
		w.Spawn(fmt.Sprintf("client%d", x+1), func() {
			defer func() { extraDone++ }()
			xhash := md5hex(xblock)
			for r := 0; r < rounds && !w.Failed(); r++ {
				vsim.Yield("op", "extra")
				t0 := time.Now()
				put := node.do("PUT", "/"+xhash, xtok, xblock)
				if put.code != 200 {
					w.Violation("c07/put-failed", "PUT with signing enabled: %d %s", put.code, put.body)
					return
				}
				signed := strings.TrimSpace(string(put.body))
				var m []string
				for _, p := range strings.Split(signed, "+")[1:] {
					if mm := refSigHint.FindStringSubmatch(p); mm != nil {
						m = mm
					}
				}
				if m == nil {
					w.Violation("c07/put-locator-unsigned", "PUT returned %q without a well-formed +A hint", signed)
					return
				}
				if want := refSignature(key, xhash, xtok, m[2], ttl); m[1] != want {
					w.Violation("c07/signature-differs-from-api-server", "keepstore signed %s (token %q, while other requests were being signed or verified) as %s; the API server's algorithm gives %s", xhash, xtok, m[1], want)
					return
				}
				w.Probe("signed-while-others-sign-or-verify")
				resp := node.do("GET", "/"+signed, xtok, nil)
				verdict := refVerify(key, signed, xtok, ttl, t0)
				if refVerify(key, signed, xtok, ttl, time.Now()) != verdict {
					verdict = "unsure"
				}
				switch verdict {
				case "ok":
					if resp.code != 200 || !bytes.Equal(resp.body, xblock) {
						w.Violation("c07/valid-signature-refused", "GET %s with its token before expiry (while other requests were being signed or verified): %d %q", signed, resp.code, trimb(resp.body))
						return
					}
					w.Probe("verified-ok")
				case "invalid":
					w.Violation("c07/signature-differs-from-api-server", "the reference verifier rejects the locator %s keepstore has just issued for token %q", signed, xtok)
					return
				}
				// the library entry points, directly
				expT := time.Now().Add(ttl)
				got := arvados.SignLocator(xhash+"+7", xtok, expT, ttl, []byte(key))
				if want := fmt.Sprintf("%s+7+A%s@%08x", xhash, refSignature(key, xhash, xtok, fmt.Sprintf("%08x", expT.Unix()), ttl), expT.Unix()); got != want {
					w.Violation("c07/signlocator-differs-from-reference", "SignLocator(token %q) = %s, reference %s (other goroutines were signing or verifying)", xtok, got, want)
					return
				}
			}
		})
	}
	done := false
	w.Spawn("client", func() {
		put := node.do("PUT", "/"+hash, token, block)
		if put.code != 200 {
			w.Violation("c07/put-failed", "PUT with signing enabled: %d %s", put.code, put.body)
			return
		}
		signed := strings.TrimSpace(string(put.body))
		// the signature is the lowercase hex HMAC-SHA1 exactly as the API server computes it
		parts := strings.Split(signed, "+")
		var m []string
		for _, p := range parts[1:] {
			if mm := refSigHint.FindStringSubmatch(p); mm != nil {
				m = mm
			}
		}
		if m == nil {
			w.Violation("c07/put-locator-unsigned", "PUT returned %q without a well-formed +A hint", signed)
			return
		}
		if want := refSignature(key, hash, token, m[2], ttl); m[1] != want {
			w.Violation("c07/signature-differs-from-api-server", "keepstore signed %s as %s; the API server's algorithm gives %s", hash, m[1], want)
			return
		}
		exp, _ := strconv.ParseInt(m[2], 16, 64)
		if lo, hi := time.Now().Add(ttl).Unix()-2, time.Now().Add(ttl).Unix()+1; exp < lo || exp > hi {
			w.Violation("c07/expiry-not-now-plus-ttl", "signed expiry %d, now+TTL is %d", exp, time.Now().Add(ttl).Unix())
			return
		}
		for i, p := range plan {
			if w.Failed() {
				return
			}
			vsim.Yield("op", "client")
			switch p.adv {
			case 1:
				if dlt := time.Unix(exp, 0).Add(-2 * time.Second).Sub(time.Now()); dlt > 0 {
					time.Sleep(dlt)
					w.Probe("clock-just-before-expiry")
				}
			case 2:
				if dlt := time.Unix(exp, 0).Add(2 * time.Second).Sub(time.Now()); dlt > 0 {
					time.Sleep(dlt)
					w.Fault("clock-jump-past-expiry")
				}
			case 3:
				time.Sleep(time.Duration(1+p.pos) * 100 * time.Millisecond)
			case 4: // inside the expiry second: after the expiry instant, before the next whole second
				if dlt := time.Unix(exp, 0).Add(time.Duration(1+p.pos%9) * 100 * time.Millisecond).Sub(time.Now()); dlt > 0 {
					time.Sleep(dlt)
					w.Probe("clock-inside-the-expiry-second")
				}
			}
			loc, tok := signed, token
			switch p.kind {
			case 1:
				tok = other
			case 2: // single-character perturbation inside the +A hint (signature or expiry field)
				i0 := strings.Index(loc, "+A") + 2
				j := i0 + p.pos%(len(loc)-i0)
				c := "0123456789abcdef"[p.chr]
				if loc[j] == c || loc[j] == '@' {
					c = "0123456789abcdef"[(p.chr+1)%16]
				}
				if loc[j] != '@' {
					loc = loc[:j] + string(c) + loc[j+1:]
				} else {
					loc = loc[:j] + string(c) + loc[j+1:] // the separator itself is damaged
				}
			case 3: // other hints before and after the signature
				i0 := strings.Index(loc, "+A")
				loc = loc[:i0] + "+Kzzzzz" + loc[i0:] + "+Zfoo@bar"
			case 4:
				loc = loc[:strings.Index(loc, "+A")]
			case 5:
				tok = ""
			case 7:
				// any expiry an 8-digit field can carry: what the API server signs, keepstore must accept
				far := []int64{0x7fffffff, 0x80000000, 0x9abcdef0, 0xffffffff, 0x7ffffffe, time.Now().Unix() + 40*365*86400}[p.chr%6]
				hx := fmt.Sprintf("%08x", far)
				loc = fmt.Sprintf("%s+%d+A%s@%s", hash, len(block), refSignature(key, hash, token, hx, ttl), hx)
				w.Probe("far-future-expiry")
			case 6:
				i0 := strings.Index(loc, "+A") + 2
				loc = loc[:i0] + strings.ToUpper(loc[i0:i0+40]) + loc[i0+40:]
				if loc == signed {
					continue
				}
			}
			now := time.Now()
			resp := node.do("GET", "/"+loc, tok, nil)
			verdict := refVerify(key, loc, tok, ttl, now)
			if verdict != "unsure" && refVerify(key, loc, tok, ttl, time.Now()) != verdict {
				verdict = "unsure" // the request straddled the expiry second
			}
			w.Logf("probe %d kind=%d -> %d ref=%s", i, p.kind, resp.code, verdict)
			switch verdict {
			case "ok":
				if resp.code != 200 || !bytes.Equal(resp.body, block) {
					w.Violation("c07/valid-signature-refused", "GET %s with its token before expiry: %d %q", loc, resp.code, trimb(resp.body))
					return
				}
				w.Probe("verified-ok")
			case "expired":
				if resp.code == 200 {
					w.Violation("c07/data-served-after-expiry", "GET %s answered 200 although its signature expired at %d (now %d)", loc, exp, now.Unix())
					return
				}
				if p.kind == 0 || p.kind == 3 {
					// well-formed, only expired: reported as expired, not as forbidden
					if resp.code != ExpiredError.HTTPCode || !strings.Contains(string(resp.body), ExpiredError.ErrMsg) {
						w.Violation("c07/expired-not-reported-as-expired", "GET of a well-formed but expired signature answered %d %q", resp.code, trimb(resp.body))
						return
					}
				}
				w.Probe("expired-refused")
			case "invalid":
				if resp.code == 200 {
					w.Violation("c07/data-served-without-valid-signature", "GET %s (token %q) answered 200; the reference verifier rejects it", loc, tok)
					return
				}
				w.Probe("invalid-refused")
			}
		}
		// ride-along (pure): SignLocator / VerifySignature / SignManifest against the reference
		for ti, t := range tokens {
			expT := time.Now().Add(ttl)
			if ti > 0 { // expiries across the whole range of the 8-digit field
				expT = time.Unix([]int64{0, 0x7fffffff, 0x80000000, 0xffffffff}[ti%4], 0)
			}
			got := arvados.SignLocator(hash+"+5", t, expT, ttl, []byte(key))
			want := fmt.Sprintf("%s+5+A%s@%08x", hash, refSignature(key, hash, t, fmt.Sprintf("%08x", expT.Unix()), ttl), expT.Unix())
			if got != want {
				w.Violation("c07/signlocator-differs-from-reference", "SignLocator(token %q) = %s, reference %s", t, got, want)
				return
			}
			if err := arvados.VerifySignature(got, t, ttl, []byte(key)); err != nil {
				w.Violation("c07/verify-rejects-own-signature", "token %q: %v", t, err)
				return
			}
		}
		mtxt := ". " + hash + "+5+Aaaaaaaaaaaaaaaaaaaaaaaaaaaaaaaaaaaaaaaaa@12345678+Kzzzzz " + hash + "+5 0:10:a\\040b\n./d " + hash + "+5+Zx 0:5:c\n"
		sm := arvados.SignManifest(mtxt, token, time.Now().Add(ttl), ttl, []byte(key))
		at, bt := strings.Fields(mtxt), strings.Fields(sm)
		if len(at) != len(bt) || strings.Count(sm, "\n") != strings.Count(mtxt, "\n") {
			w.Violation("c07/signmanifest-changed-structure", "%q -> %q", mtxt, sm)
			return
		}
		for i := range at {
			isLoc := strings.HasPrefix(at[i], hash)
			if !isLoc && at[i] != bt[i] {
				w.Violation("c07/signmanifest-changed-token", "token %q became %q", at[i], bt[i])
				return
			}
			if isLoc {
				if arvados.VerifySignature(bt[i], token, ttl, []byte(key)) != nil || strings.Count(bt[i], "+A") != 1 {
					w.Violation("c07/signmanifest-bad-signature", "locator %q became %q", at[i], bt[i])
					return
				}
				strip := func(s string) string { return regexp.MustCompile(`\+A[^+]*`).ReplaceAllString(s, "") }
				if strip(at[i]) != strip(bt[i]) {
					w.Violation("c07/signmanifest-changed-hints", "locator %q became %q", at[i], bt[i])
					return
				}
			}
		}
		done = true
	})
	w.Run(nil)
	if w.Failed() || w.Truncated() {
		return
	}
	if !done || extraDone != extras {
		w.Violation("c07/client-stuck", "%s", strings.Join(w.Blocked(), "; "))
		return
	}
	node.kill()
	w.Quiesce()
	w.SetEndState(fmt.Sprintf("%d probes ttl=%s", len(plan), ttl))
}

func indexOf(s []string, x string) int {
	for i, v := range s {
		if v == x {
			return i
		}
	}
	return 0
}

func trimb(b []byte) string {
	if len(b) > 60 {
		return string(b[:60]) + "..."
	}
	return string(b)
}
