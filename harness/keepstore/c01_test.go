//go:build go1.26

package main

import (
	"bytes"
	"fmt"
	"os"
	"strings"
	"syscall"
	"time"

	"verif.local/vsim"
	"verif.local/vsim/vsimfs"
)

// ---- C01: keepstore never serves or accepts a block whose content mismatches its hash ---

var corruptKinds = []string{"intact", "absent", "bitflip", "truncate", "append", "substitute", "empty"}

func corrupt(w *vsim.World, kind string, block, other []byte) ([]byte, bool) {
	switch kind {
	case "intact":
		return block, true
	case "bitflip":
		if len(block) == 0 {
			return []byte{0x01}, true
		}
		c := append([]byte(nil), block...)
		c[w.Choose("flip-pos", len(c))] ^= 1 << uint(w.Choose("flip-bit", 8))
		return c, true
	case "truncate":
		if len(block) == 0 {
			return []byte{'t'}, true
		}
		return append([]byte(nil), block[:w.Choose("trunc-len", len(block))]...), true
	case "append":
		return append(append([]byte(nil), block...), bytes.Repeat([]byte{'z'}, 1+w.Choose("append-n", 4))...), true
	case "substitute":
		return other, true
	case "empty":
		if len(block) == 0 {
			return []byte{'e'}, true
		}
		return []byte{}, true
	}
	return nil, false // absent
}

func scenC01(w *vsim.World, spec *vsim.Spec) {
	d := newRunDirs(w)
	if d == nil {
		return
	}
	defer d.cleanup()
	vols := drawVolumes(w, d, 3, false)
	chunk := []int{1 << 16, 1, 3, 16}[w.Choose("chunk", 4)]
	vsimfs.ChunkSize = chunk
	nblk := 1 + w.Choose("blocks", 3)
	var blocks [][]byte
	var hashes []string
	for i := 0; i < nblk; i++ {
		sizes := []int{5, 0, 1, 2, chunk - 1, chunk, chunk + 1, 3*chunk + 1, 100}
		size := sizes[w.Choose("size", len(sizes))]
		if size < 0 {
			size = 0
		}
		if size > 5000 {
			size = 5000
		}
		b := mkBlock(10+i, size)
		if i > 0 && len(b) > 0 {
			b[len(b)-1] = byte(200 + i) // distinct blocks
		} else if i > 0 {
			b = []byte{byte(200 + i)}
		}
		blocks = append(blocks, b)
		hashes = append(hashes, md5hex(b))
	}
	t0 := time.Now()
	for bi := range blocks {
		other := blocks[(bi+1)%len(blocks)]
		if len(blocks) == 1 {
			other = []byte("a different valid block")
		}
		for _, vs := range vols {
			kind := corruptKinds[w.Choose(fmt.Sprintf("state-b%d-%s", bi, vs.name), len(corruptKinds))]
			if c, present := corrupt(w, kind, blocks[bi], other); present {
				plant(vs.root, hashes[bi], c, t0.Add(-time.Hour))
				if kind != "intact" {
					w.Fault("planted-" + kind)
				}
			}
		}
	}
	cluster := mkCluster(2*time.Hour, 24*time.Hour, true, false)
	node := startNode(w, 1, cluster, vols)
	// the request plan
	type req struct {
		kind     int // 0 GET 1 HEAD 2 PUT 3 PUT with a body that does not hash to H
		blk      int
		midStep  int // corrupt/err at this fs step of the request (0 = never)
		midKind  int // 0 corrupt a copy now, 1 EIO on this step
		midVol   int
		midState int
		wrong    int // kind 3: 0 other bytes, 1 the (damaged) bytes stored under H on some volume, 2 one bit flipped, 3 last byte missing, 4 empty
		wrongVol int
	}
	var plan []req
	for len(plan) < 10 && (len(plan) == 0 || w.Choose("more", 5) != 0) {
		r := req{kind: w.Choose("req-kind", 4), blk: w.Choose("req-blk", nblk)}
		if r.kind == 3 {
			r.wrong, r.wrongVol = w.Choose("wrong-body", 5), w.Choose("wrong-body-vol", len(vols))
		}
		if w.Chance("mid-request-fault", 250) {
			r.midStep = 1 + w.Choose("mid-step", 12)
			r.midKind = w.Choose("mid-kind", 2)
			r.midVol = w.Choose("mid-vol", len(vols))
			r.midState = 1 + w.Choose("mid-state", len(corruptKinds)-1)
		}
		plan = append(plan, r)
	}
	readable := func(vs volSpec) bool { return true } // every configured volume is readable
	intactSomewhere := func(bi int) bool {
		for _, vs := range vols {
			if !readable(vs) {
				continue
			}
			if b, err := os.ReadFile(blockPathIn(vs.root, hashes[bi])); err == nil && bytes.Equal(b, blocks[bi]) {
				return true
			}
		}
		return false
	}
	cur := -1
	step := 0
	disturbed := false    // a fault of either kind was injected into the current request
	corruptedMid := false // ... and it changed stored bytes behind keepstore's back (an EIO does not)
	vsimfs.Director = func(w *vsim.World, s *vsimfs.Step) error {
		if cur < 0 || s.Node != node.name {
			return nil
		}
		r := plan[cur]
		step++
		if r.midStep == 0 || step != r.midStep {
			return nil
		}
		disturbed = true
		corruptedMid = r.midKind != 1
		if r.midKind == 1 {
			w.Fault("eio-at-" + s.Op)
			return syscall.EIO
		}
		vs := vols[r.midVol]
		other := blocks[(r.blk+1)%len(blocks)]
		if len(blocks) == 1 {
			other = []byte("a different valid block")
		}
		kind := corruptKinds[r.midState]
		c, present := corrupt(w, kind, blocks[r.blk], other)
		w.Fault("mid-request-" + kind)
		w.Logf("mid-request corruption of %s on %s at step %d (%s)", hashes[r.blk][:8], vs.name, step, s.Op)
		if present {
			plant(vs.root, hashes[r.blk], c, t0.Add(-time.Hour))
		} else {
			os.Remove(blockPathIn(vs.root, hashes[r.blk]))
		}
		return nil
	}
	// a second client reads and rewrites a block of its own while the first one works, and (in that
	// mode) every response is read slowly: buffers handed back too early get reused under a response
	slowReaders = false
	defer func() { slowReaders = false }()
	xblock := mkBlock(77, 20+w.Choose("x-size", 60))
	xhash := md5hex(xblock)
	xrounds := 0
	if w.Choose("second-client", 3) != 0 {
		slowReaders = true
		xrounds = 1 + w.Choose("x-rounds", 6)
		plant(vols[0].root, xhash, xblock, t0.Add(-time.Hour))
		w.Probe("second-client-and-slow-readers")
	}
	xdone := xrounds == 0
	if xrounds > 0 {
		w.Spawn("client2", func() {
			for i := 0; i < xrounds && !w.Failed(); i++ {
				vsim.Yield("op", "client2")
				resp := node.do("GET", "/"+xhash, "usertoken", nil)
				if resp.code == 200 && !bytes.Equal(resp.body, xblock) {
					w.Violation("c01/served-mismatching-data", "client2: GET %s answered 200 with %d bytes whose MD5 is %s", xhash, len(resp.body), md5hex(resp.body))
					return
				}
				if i%2 == 1 {
					node.do("PUT", "/"+xhash, "usertoken", xblock)
				}
			}
			xdone = true
		})
	}
	done := false
	w.Spawn("client", func() {
		for i, r := range plan {
			if w.Failed() {
				return
			}
			vsim.Yield("op", "client")
			bi := r.blk
			h := hashes[bi]
			before := intactSomewhere(bi)
			cur, step, disturbed, corruptedMid = i, 0, false, false
			tag := fmt.Sprintf("request %d", i)
			switch r.kind {
			case 0, 1:
				m := "GET"
				if r.kind == 1 {
					m = "HEAD"
				}
				resp := node.do(m, "/"+h, "usertoken", nil)
				cur = -1
				after := intactSomewhere(bi)
				w.Logf("%s %s %s -> %d (%d bytes) intact-before=%v after=%v disturbed=%v", tag, m, h[:8], resp.code, len(resp.body), before, after, disturbed)
				if resp.code == 200 {
					if !bytes.Equal(resp.body, blocks[bi]) {
						w.Violation("c01/served-mismatching-data", "%s: %s %s answered 200 with %d bytes whose MD5 is %s", tag, m, h, len(resp.body), md5hex(resp.body))
						return
					}
					if cl := resp.hdr.Get("Content-Length"); cl != fmt.Sprint(len(resp.body)) {
						w.Violation("c01/wrong-length-reported", "%s: %s %s: Content-Length %q, body has %d bytes", tag, m, h, cl, len(resp.body))
						return
					}
					w.Probe("get-200")
				} else {
					if len(blocks[bi]) >= 8 && bytes.Contains(resp.body, blocks[bi]) {
						w.Violation("c01/data-with-error-status", "%s: status %d but the body carries the block", tag, resp.code)
						return
					}
					w.Probe("get-error")
				}
				if before && after && !disturbed && resp.code != 200 {
					w.Violation("c01/intact-copy-not-served", "%s: %s %s answered %d although a readable volume held an intact copy throughout the request", tag, m, h, resp.code)
					return
				}
				if !before && !after && !disturbed && resp.code == 200 { // (a read torn across two injected versions may legitimately add up to the right bytes)
					w.Violation("c01/served-without-intact-copy", "%s: %s %s answered 200 although no volume held an intact copy", tag, m, h)
					return
				}
			case 2, 3:
				body := blocks[bi]
				if r.kind == 3 {
					body = append([]byte("wrong body "), blocks[bi]...)
					switch r.wrong {
					case 1: // exactly what a volume holds under that name now, when that is not the block
						for i := range vols {
							vs := vols[(r.wrongVol+i)%len(vols)]
							if b, err := os.ReadFile(blockPathIn(vs.root, h)); err == nil && md5hex(b) != h {
								body = b
								w.Probe("put-of-the-damaged-bytes-stored-under-the-hash")
								break
							}
						}
					case 2:
						if len(blocks[bi]) > 0 {
							body = append([]byte(nil), blocks[bi]...)
							body[len(body)/2] ^= 4
						}
					case 3:
						if len(blocks[bi]) > 1 {
							body = append([]byte(nil), blocks[bi][:len(blocks[bi])-1]...)
						}
					case 4:
						if len(blocks[bi]) > 0 {
							body = []byte{}
						}
					}
				}
				resp := node.do("PUT", "/"+h, "usertoken", body)
				cur = -1
				w.Logf("%s PUT %s wrong=%v -> %d", tag, h[:8], r.kind == 3, resp.code)
				if resp.code == 200 {
					if r.kind == 3 {
						w.Violation("c01/put-accepted-mismatching-body", "%s: PUT %s acknowledged a body whose MD5 is %s", tag, h, md5hex(body))
						return
					}
					if !strings.HasPrefix(string(resp.body), fmt.Sprintf("%s+%d", h, len(body))) {
						w.Violation("c01/put-ack-locator", "%s: PUT 200 body %q", tag, resp.body)
						return
					}
					w.Probe("put-200")
					// once acknowledged, an intact copy is retrievable -- unless the injector damaged a
					// copy WHILE this request ran (new corruption after keepstore's own check is not
					// something an acknowledgement can vouch for)
					g := node.do("GET", "/"+h, "usertoken", nil)
					if corruptedMid {
						w.Probe("put-acked-while-disk-was-being-corrupted")
					} else if g.code != 200 || !bytes.Equal(g.body, blocks[bi]) {
						w.Violation("c01/acknowledged-put-not-retrievable", "%s: PUT %s was acknowledged but the following GET answered %d with %d bytes", tag, h, g.code, len(g.body))
						return
					}
				} else {
					w.Probe("put-refused")
				}
			}
		}
		done = true
	})
	w.Run(nil)
	if w.Failed() || w.Truncated() {
		return
	}
	if !done || !xdone {
		w.Violation("c01/client-stuck", "%s", strings.Join(w.Blocked(), "; "))
		return
	}
	node.kill()
	w.Quiesce()
	w.SetEndState(fmt.Sprintf("%d requests", len(plan)))
}
