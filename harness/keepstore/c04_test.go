//go:build go1.26

package main

import (
	"bytes"
	"encoding/json"
	"fmt"
	"os"
	"path/filepath"
	"regexp"
	"strconv"
	"strings"
	"time"

	"verif.local/vsim"
	"verif.local/vsim/vsimfs"
)

// ---- C04: a freshly written or touched block survives garbage collection for the TTL ----

type c04op struct {
	kind  int // 0 PUT 1 TOUCH 2 GET 3 DELETE 4 trash-list 5 untrash
	blk   int
	mode  int // trash-list: 0 matching mtime, 1 stale, 2 future
	mount int // trash-list: 0 everywhere, 1.. = volume index+1
}

var c04trashName = regexp.MustCompile(`^([0-9a-f]{32})\.trash\.(\d+)$`)

type c04guard struct { // an acknowledged PUT/TOUCH: the block must survive until start+TTL
	hash  string
	start time.Time
}

func scenC04(w *vsim.World, spec *vsim.Spec) {
	d := newRunDirs(w)
	if d == nil {
		return
	}
	defer d.cleanup()
	vols := drawVolumes(w, d, 2, true)
	ttl := []time.Duration{time.Hour, 10 * time.Second, 14 * 24 * time.Hour}[w.Choose("ttl", 3)]
	lifetime := []time.Duration{24 * time.Hour, 0, 5 * time.Second}[w.Choose("trash-lifetime", 3)]
	blobTrash := !w.Chance("blobtrash-off", 150)
	cluster := mkCluster(ttl, lifetime, blobTrash, false)
	w.SetMaxIdle(100 * 24 * time.Hour)
	nblk := 1 + w.Choose("blocks", 2)
	var blocks [][]byte
	var hashes []string
	for i := 0; i < nblk; i++ {
		b := mkBlock(40+i, 3+i)
		blocks, hashes = append(blocks, b), append(hashes, md5hex(b))
	}
	t0 := time.Now()
	ages := []time.Duration{ttl + time.Second, ttl - time.Second, 2 * ttl, 0, ttl}
	for bi := range blocks {
		for _, vs := range vols {
			if k := w.Choose(fmt.Sprintf("init-b%d-%s", bi, vs.name), 1+len(ages)); k > 0 {
				plant(vs.root, hashes[bi], blocks[bi], t0.Add(-ages[k-1]))
			}
		}
	}
	node := startNode(w, 1, cluster, vols)
	jumps := []time.Duration{0, time.Second, ttl - time.Second, ttl + time.Second, lifetime + time.Second, ttl / 2}

	// ---- monitors ---------------------------------------------------------------------
	var guards []c04guard
	type lastT struct {
		op, path, path2, task string
	}
	var last *lastT
	prev := map[string]map[string]string{}
	for _, vs := range vols {
		prev[vs.name] = snapshot(vs.root)
	}
	// trash-list entries ever sent: hash -> list of (mtime, mount uuid)
	type tentry struct {
		mtime int64
		mount string
	}
	sent := map[string][]tentry{}
	untrashStarted := map[string]int{}
	deleteStarted := map[string]int{}        // DELETE requests ever started, per hash
	prevStepAt := map[string]time.Time{}     // task -> time of its previous filesystem step
	prevStepBefore := map[string]time.Time{} // task -> time of the step before the current one
	type appliedStamp struct{ at, ts time.Time }
	applied := map[string][]appliedStamp{}    // hash -> timestamps that requests gave the block (rename into place, utimes) and when
	lastChtimesAt := map[string]time.Time{}   // task -> time of its latest utimes step
	longWaitForFlock := map[string]bool{}     // task -> it got a flock a whole TTL after its previous step (the open)
	staleLockTouch := map[string]bool{}       // hash -> a Touch whose flock came a whole TTL after its open has stamped this block
	stalledRenameAt := map[string]time.Time{} // hash -> when a writer that had been in flight for >= TTL renamed its temp file into place
	lastCopyWrite := map[string]time.Time{}   // request task id -> time of the latest data-write step of a block write it performed
	taskStart := map[string]time.Time{}       // request task id (up to the first '.') -> time of its first filesystem step
	stalledWriter := map[string]bool{}        // hash -> a PUT that had been in flight for >= TTL renamed its copy into place
	twSeen := map[string][]int64{}            // hash -> stored mtimes the trash worker saw when it stat'ed the block
	// operations in flight (maintained by the client tasks) and their values at the instant the
	// last filesystem step was granted: a directory change observed now was made by that step
	liveDelete := map[string]int{} // hash -> number of DELETE requests in flight
	liveEmpty := 0
	liveUntrash := map[string]int{}
	liveWriter := map[string]int{} // PUT/TOUCH in flight per hash
	deleteActive, untrashActive, writerActive := map[string]int{}, map[string]int{}, map[string]int{}
	emptyActive := 0
	freeze := func() {
		cp := func(m map[string]int) map[string]int {
			r := map[string]int{}
			for k, v := range m {
				r[k] = v
			}
			return r
		}
		deleteActive, untrashActive, writerActive, emptyActive = cp(liveDelete), cp(liveUntrash), cp(liveWriter), liveEmpty
	}
	volOf := func(name string) *volSpec {
		for i := range vols {
			if vols[i].name == name {
				return &vols[i]
			}
		}
		return nil
	}
	checkTransitions := func() {
		now := time.Now()
		for _, vs := range vols {
			cur := snapshot(vs.root)
			old := prev[vs.name]
			for _, rel := range sortedKeys(old) {
				base := filepath.Base(rel)
				if _, still := cur[rel]; still {
					if cur[rel] != old[rel] && len(base) == 32 {
						// size or mtime of a live block changed: only a writer of that block may do that
						if writerActive[base] == 0 && untrashActive[base] == 0 {
							w.Violation("c04/unlicensed-mtime-or-size-change", "volume %s: %s changed %q -> %q with no PUT/TOUCH/untrash of it in flight (last step: %+v)", vs.name, base[:8], old[rel], cur[rel], last)
						}
					}
					continue
				}
				switch {
				case len(base) == 32: // a live block left its name
					var mt int64
					fmt.Sscanf(strings.Fields(old[rel])[1], "%d", &mt)
					age := now.Sub(time.Unix(0, mt))
					if untrashActive[base] > 0 || writerActive[base] > 0 {
						// renamed over by a writer / untrash: the name is still (or again) present
						if _, back := snapshot(vs.root)[rel]; back {
							continue
						}
					}
					if vs.readOnly {
						w.Violation("c04/trash-on-read-only-volume", "volume %s is read-only but %s left it (last step: %+v)", vs.name, base[:8], last)
						return
					}
					if !blobTrash {
						w.Violation("c04/trash-while-trashing-disabled", "BlobTrash is off but %s left volume %s (last step: %+v)", base[:8], vs.name, last)
						return
					}
					if age < ttl && last != nil && (longWaitForFlock[last.task] || staleLockTouch[base]) {
						w.ViolationSig("c04/block-younger-than-ttl-trashed", "trash-resumed-after-a-whole-ttl-holds-the-lock-of-a-replaced-file", "volume %s: %s was trashed at age %s < TTL %s: a Trash or a Touch of this block had opened the file and then waited for its flock for a whole TTL; meanwhile a writer replaced the file, so the lock it finally got was on the unlinked old file and Trash and Touch of the file at the path were not serialised: the freshly touched file was renamed into the trash (last step: %+v)", vs.name, base[:8], age, ttl, last)
						return
					}
					if age < ttl && stalledWriter[base] {
						w.ViolationSig("c04/block-younger-than-ttl-trashed", "request-in-flight-for-a-whole-ttl-on-this-block", "volume %s: %s was trashed at age %s < TTL %s after a PUT, TOUCH or untrash of this block that had been in flight for a whole TTL applied the timestamp it had read back then (or acted through a descriptor or lock it had obtained back then): the file at the path looked a whole TTL old to Trash() although it had just been written or touched (last step: %+v)", vs.name, base[:8], age, ttl, last)
						return
					}
					if age < ttl {
						w.Violation("c04/block-younger-than-ttl-trashed", "volume %s: %s was removed/trashed at age %s < TTL %s (stored mtime %d, last step: %+v)", vs.name, base[:8], age, ttl, mt, last)
						return
					}
					licensed := deleteActive[base] > 0
					for _, e := range sent[base] {
						if e.mtime == mt && (e.mount == "" || e.mount == vs.uuid) {
							licensed = true
						}
					}
					if !licensed && last != nil && strings.HasSuffix(last.task, "trashworker") {
						// Did the trash worker compare timestamps when an entry DID match, and only act now?
						for _, e := range sent[base] {
							matched := false
							for _, seen := range twSeen[base] {
								matched = matched || seen == e.mtime
							}
							if matched && (e.mount == "" || e.mount == vs.uuid) {
								w.ViolationSig("c04/unrequested-trash", "trashworker-check-then-act-across-ttl-stall", "volume %s: %s (stored mtime %d) was trashed by the trash worker although the only trash-list entries name %v: TrashItem compared timestamps when the stored one was one of %v, then stalled long enough (>= TTL %s) for a replacement copy to become old enough, and Trash() acted on that other replica", vs.name, base[:8], mt, sent[base], twSeen[base], ttl)
								return
							}
						}
					}
					if !licensed {
						w.Violation("c04/unrequested-trash", "volume %s: %s (stored mtime %d) was trashed, but no DELETE is in flight and no trash-list entry names that timestamp for this mount (entries: %v; last step: %+v)", vs.name, base[:8], mt, sent[base], last)
						return
					}
					w.Probe("licensed-trash")
				case c04trashName.MatchString(base):
					m := c04trashName.FindStringSubmatch(base)
					dl, _ := strconv.ParseInt(m[2], 10, 64)
					if untrashActive[m[1]] > 0 {
						continue // brought back by untrash
					}
					if emptyActive == 0 {
						w.Violation("c04/trash-file-removed-outside-emptytrash", "volume %s: %s disappeared with no EmptyTrash or untrash running (last step: %+v)", vs.name, base, last)
						return
					}
					if dl > now.Unix() {
						w.Violation("c04/trash-emptied-before-deadline", "volume %s: %s was deleted at %d, before its deadline %d", vs.name, base, now.Unix(), dl)
						return
					}
					w.Probe("licensed-empty-trash")
				}
			}
			for _, rel := range sortedKeys(cur) {
				if _, was := old[rel]; was {
					continue
				}
				base := filepath.Base(rel)
				if len(base) == 32 {
					// a block name appears: complete content only (PUT's rename of a finished temp file, or untrash)
					b, err := os.ReadFile(filepath.Join(vs.root, rel))
					if err == nil && md5hex(b) != base {
						w.Violation("c04/incomplete-block-appeared", "volume %s: %s appeared with %d bytes that do not hash to its name (last step: %+v)", vs.name, base[:8], len(b), last)
						return
					}
				}
			}
			prev[vs.name] = cur
		}
		// survival: every acknowledged PUT/TOUCH protects its block until start+TTL
		for _, g := range guards {
			if !now.Before(g.start.Add(ttl)) {
				continue
			}
			found := false
			for _, vs := range vols {
				if b, err := os.ReadFile(blockPathIn(vs.root, g.hash)); err == nil && md5hex(b) == g.hash {
					found = true
				}
			}
			olderApplied := false // a request gave the block a timestamp OLDER than this guard's reference, AFTER that reference
			for _, e := range applied[g.hash] {
				if !e.at.Before(g.start) && e.ts.Before(g.start) {
					olderApplied = true
				}
			}
			if !found && (olderApplied || stalledWriter[g.hash] && stalledRenameAt[g.hash].After(g.start)) {
				w.ViolationSig("c04/fresh-block-gone", "writer-stalled-a-whole-ttl-replaces-fresher-copy-with-its-old-timestamp", "block %s was PUT/TOUCHed (acknowledged; operation started %s ago), then another PUT, TOUCH or untrash of the same block applied a timestamp it had read BEFORE that (it was delayed between reading the clock and its rename/utimes), so the block's stored timestamp went backwards and a trash request removed it early; TTL is %s (last step: %+v)", g.hash[:8], now.Sub(g.start), ttl, last)
				return
			}
			if !found {
				w.Violation("c04/fresh-block-gone", "block %s was PUT/TOUCHed (acknowledged; operation started %s ago) but is on no volume any more; TTL is %s (last step: %+v)", g.hash[:8], now.Sub(g.start), ttl, last)
				return
			}
		}
	}
	jumpBudget := 3
	// "in flight for a whole TTL" is judged with the small jumps of the run taken off: the copy a stalled
	// writer races with may itself carry a timestamp that is older than its appearance by such a jump
	smallJumps := time.Duration(0)
	vsimfs.Director = func(w *vsim.World, s *vsimfs.Step) error {
		if s.Node != node.name {
			return nil
		}
		checkTransitions()
		if jumpBudget > 0 && w.Chance("clock-jump", 60) {
			jumpBudget--
			j := jumps[w.Choose("jump", len(jumps))]
			if j > 0 {
				w.Fault("clock-jump")
				w.Advance(j)
				if j < ttl/2 {
					smallJumps += j
				}
			}
		}
		root := s.Task
		if i := strings.Index(root, "."); i > 0 && strings.Contains(root, ">") {
			if j := strings.Index(root[strings.Index(root, ">"):], "."); j > 0 {
				// "c1>ks1.2.4" -> "c1>ks1.2": one request
				k := strings.Index(root, ">") + j
				if m := strings.Index(root[k+1:], "."); m > 0 {
					root = root[:k+1+m]
				}
			}
		}
		if _, ok := taskStart[root]; !ok {
			taskStart[root] = time.Now()
		}
		if s.Op == "copy-write" {
			lastCopyWrite[root] = time.Now()
		}
		// A request (PUT, TOUCH, untrash) that has been in flight for a whole TTL and now applies a timestamp it
		// chose back then, or moves a file into place that carries one: the family of the recorded TTL-stall findings.
		// (The long wait must sit right before the timestamp is applied - between the step after which the code read
		// the clock and the utimes/rename that uses it. A request that merely took long elsewhere is not this family:
		// seeded/C04-wave3, a timestamp taken before the copy, must not hide behind it.)
		gapBefore := time.Duration(0)
		if t, ok := prevStepAt[s.Task]; ok {
			gapBefore = time.Since(t)
		}
		if t, ok := prevStepAt[s.Task]; ok {
			prevStepBefore[s.Task] = t
		}
		prevStepAt[s.Task] = time.Now()
		if s.Op == "flock" && gapBefore >= ttl-smallJumps {
			longWaitForFlock[s.Task] = true
			w.Probe("flock-obtained-after-a-whole-ttl")
		}
		// (since the repository fix e382480 a writer opens and locks the file it replaces between stamping its
		// temp file and renaming it: the wait may sit before those steps, so a rename also counts when the same
		// task stamped the file a whole TTL ago)
		sinceStamp := time.Duration(0)
		if t, ok := lastChtimesAt[s.Task]; ok && s.Op == "rename" {
			sinceStamp = time.Since(t)
		}
		if b2 := filepath.Base(s.Path2); s.Op == "rename" && len(b2) == 32 && isHex32(b2) {
			// what counts in the end is the age of the timestamp the renamed file carries
			if fi, err := os.Stat(filepath.Join(vsimfs.Base, strings.TrimPrefix(s.Path, "@"))); err == nil {
				// (only a timestamp that was read AFTER the data had been written: one read before the copy, as
				// seeded/C04-wave3 does, is a different defect and must not be filed under this finding)
				fromTmp := strings.HasPrefix(filepath.Base(s.Path), "tmp") // (otherwise: untrash, which stamps the trashed file before it renames it)
				if age := time.Since(fi.ModTime()); age > sinceStamp && (!fromTmp || !fi.ModTime().Before(lastCopyWrite[root])) {
					sinceStamp = age
				}
				if strings.Contains(root, ">") && (!fromTmp || !fi.ModTime().Before(lastCopyWrite[root])) {
					applied[b2] = append(applied[b2], appliedStamp{at: time.Now(), ts: fi.ModTime()})
				}
			}
		}
		if s.Op == "chtimes" && longWaitForFlock[s.Task] {
			// a Touch that got its flock a whole TTL after opening the file: the lock may be on a replaced file,
			// and its utimes (by path) is then not serialised with a Trash of the file that is there now
			if b := filepath.Base(s.Path); len(b) == 32 && isHex32(b) {
				staleLockTouch[b] = true
			}
		}
		if s.Op == "chtimes" {
			lastChtimesAt[s.Task] = time.Now()
			if b := filepath.Base(s.Path); len(b) == 32 && isHex32(b) && strings.Contains(root, ">") {
				// Touch: the clock was read after the previous step of this task (the flock) at the earliest
				if t, ok := prevStepBefore[s.Task]; ok {
					applied[b] = append(applied[b], appliedStamp{at: time.Now(), ts: t})
				}
			}
		}
		if (s.Op == "rename" || s.Op == "chtimes") && strings.Contains(root, ">") && (gapBefore >= ttl-smallJumps || sinceStamp >= ttl-smallJumps) {
			for _, pth := range []string{s.Path, s.Path2} {
				base := filepath.Base(pth)
				if strings.HasPrefix(base, "tmp") {
					base = strings.TrimPrefix(base, "tmp")
				}
				if len(base) >= 32 && isHex32(base[:32]) && !(s.Op == "rename" && pth == s.Path && strings.Contains(s.Path2, ".trash.")) {
					stalledWriter[base[:32]] = true
					stalledRenameAt[base[:32]] = time.Now()
					w.Probe("request-in-flight-for-a-whole-ttl-applies-its-timestamp")
				}
			}
		}
		if strings.HasSuffix(s.Task, "trashworker") && s.Op == "stat" {
			base := filepath.Base(s.Path)
			if len(base) == 32 {
				if fi, err := os.Stat(filepath.Join(vsimfs.Base, strings.TrimPrefix(s.Path, "@"))); err == nil {
					twSeen[base] = append(twSeen[base], fi.ModTime().UnixNano())
				}
			}
		}
		last = &lastT{s.Op, s.Path, s.Path2, s.Task}
		freeze()
		return nil
	}
	_ = volOf

	// ---- workload -------------------------------------------------------------------------
	nclients := 2 + w.Choose("clients", 3)
	finished := 0
	for c := 0; c < nclients; c++ {
		c := c
		var ops []c04op
		for len(ops) < 12 && (len(ops) == 0 || w.Choose(fmt.Sprintf("c%d-more", c), 5) != 0) {
			ops = append(ops, c04op{kind: w.Choose(fmt.Sprintf("c%d-kind", c), 6), blk: w.Choose(fmt.Sprintf("c%d-blk", c), nblk),
				mode: w.Choose(fmt.Sprintf("c%d-mode", c), 3), mount: w.Choose(fmt.Sprintf("c%d-mount", c), 1+len(vols))})
		}
		w.Spawn(fmt.Sprintf("c%d", c), func() {
			for i, o := range ops {
				if w.Failed() {
					return
				}
				vsim.Yield("op", "client")
				h := hashes[o.blk]
				tag := fmt.Sprintf("c%d op%d", c, i)
				switch o.kind {
				case 0, 1:
					start := time.Now()
					liveWriter[h]++
					var r *ksResp
					if o.kind == 0 {
						r = node.do("PUT", "/"+h, "usertoken", blocks[o.blk])
					} else {
						r = node.do("TOUCH", "/"+h, sysToken, nil)
					}
					liveWriter[h]--
					w.Logf("%s %s %s -> %d", tag, []string{"PUT", "TOUCH"}[o.kind], h[:8], r.code)
					if r.code == 200 {
						// The acknowledgement (time t of the statement) comes after the stored timestamp was
						// chosen, and the clock may jump in between, so t itself is not usable. Lower bounds
						// of t that any implementation stamping the block when its data is complete honours:
						// the start of the operation, and the last data-write step of a fresh block write.
						if lw, ok := lastCopyWrite[r.reqID]; ok && o.kind == 0 && lw.After(start) {
							start = lw
							w.Probe("put-guard-from-last-data-write")
						}
						guards = append(guards, c04guard{h, start})
						w.Probe([]string{"put-acked", "touch-acked"}[o.kind])
					}
				case 2:
					r := node.do("GET", "/"+h, "usertoken", nil)
					if r.code == 200 && !bytes.Equal(r.body, blocks[o.blk]) {
						w.Violation("c04/get-wrong-data", "%s: GET %s returned other bytes", tag, h[:8])
						return
					}
				case 3:
					liveDelete[h]++
					deleteStarted[h]++
					r := node.do("DELETE", "/"+h, sysToken, nil)
					liveDelete[h]--
					w.Logf("%s DELETE %s -> %d %s", tag, h[:8], r.code, strings.TrimSpace(string(r.body)))
				case 4:
					// a trash list as keep-balance would send it: the mtime it saw in an index
					var mt int64
					for _, vs := range vols {
						if fi, err := os.Stat(blockPathIn(vs.root, h)); err == nil {
							mt = fi.ModTime().UnixNano()
						}
					}
					switch o.mode {
					case 1:
						mt -= int64(time.Second) // stale: an older timestamp than the stored one
					case 2:
						mt = time.Now().Add(-2 * ttl).UnixNano() // some other old timestamp
					}
					mount := ""
					if o.mount > 0 {
						mount = vols[o.mount-1].uuid
					}
					sent[h] = append(sent[h], tentry{mt, mount})
					body, _ := json.Marshal([]TrashRequest{{Locator: h, BlockMtime: mt, MountUUID: mount}})
					r := node.do("PUT", "/trash", sysToken, body)
					w.Logf("%s trash-list %s mtime=%d mount=%q -> %d", tag, h[:8], mt, mount, r.code)
					w.Probe("trash-list-sent")
				case 5:
					// untrash: judged only when a trashed copy with a future deadline exists on a writable volume
					var have bool
					var minDl int64 = 1 << 62
					for _, vs := range vols {
						if vs.readOnly {
							continue
						}
						ents, _ := os.ReadDir(filepath.Dir(blockPathIn(vs.root, h)))
						for _, e := range ents {
							if m := c04trashName.FindStringSubmatch(e.Name()); m != nil && m[1] == h {
								dl, _ := strconv.ParseInt(m[2], 10, 64)
								have = true
								if dl < minDl {
									minDl = dl
								}
							}
						}
					}
					em0 := liveEmpty
					alone := liveUntrash[h] == 0
					del0 := deleteStarted[h]
					untrashStarted[h]++
					seq0 := untrashStarted[h]
					liveUntrash[h]++
					r := node.do("PUT", "/untrash/"+h, sysToken, nil)
					liveUntrash[h]--
					w.Logf("%s untrash %s -> %d (trashed copy before=%v)", tag, h[:8], r.code, have)
					if have && alone && untrashStarted[h] == seq0 && minDl > time.Now().Unix()+1 && em0 == 0 && liveEmpty == 0 && liveDelete[h] == 0 && len(sent[h]) == 0 {
						if r.code != 200 {
							w.Violation("c04/untrash-failed-before-deadline", "%s: a trashed copy of %s with deadline %d existed (now %d), yet untrash answered %d %q", tag, h[:8], minDl, time.Now().Unix(), r.code, trimb(r.body))
							return
						}
						g := node.do("GET", "/"+h, "usertoken", nil)
						if deleteStarted[h] != del0 || liveDelete[h] != 0 || len(sent[h]) != 0 {
							// another client's DELETE / trash list ran meanwhile (possibly after a clock
							// jump past the TTL): it may legitimately have trashed the block again
							w.Probe("untrash-followed-by-concurrent-delete")
						} else if g.code != 200 || !bytes.Equal(g.body, blocks[o.blk]) {
							w.Violation("c04/untrashed-block-not-served", "%s: untrash of %s succeeded but GET answers %d", tag, h[:8], g.code)
							return
						}
						w.Probe("untrash-verified")
					}
				}
			}
			finished++
		})
	}
	// the trash-emptying sweep, a few times at scheduler-chosen moments
	nsweeps := w.Choose("sweeps", 4)
	w.SpawnOn(node.name, node.name+".emptytrash", func() {
		for i := 0; i < nsweeps; i++ {
			vsim.Yield("op", "emptytrash")
			liveEmpty++
			for _, mnt := range node.volmgr.AllWritable() {
				mnt.EmptyTrash()
			}
			liveEmpty--
			w.Probe("empty-trash-sweep")
		}
	})
	w.Run(nil)
	if w.Failed() || w.Truncated() {
		return
	}
	if finished != nclients {
		w.Violation("c04/client-stuck", "%s", strings.Join(w.Blocked(), "; "))
		return
	}
	checkTransitions()
	if w.Failed() {
		return
	}
	node.kill()
	w.Quiesce()
	w.SetEndState(fmt.Sprintf("%d clients %d guards", nclients, len(guards)))
}

func isHex32(s string) bool {
	if len(s) != 32 {
		return false
	}
	for _, c := range s {
		if !(c >= '0' && c <= '9' || c >= 'a' && c <= 'f') {
			return false
		}
	}
	return true
}
