//go:build go1.26

package controller

// Shared machinery of the federation harness: the simulated transport the REAL controller
// Handler talks through, the cluster configuration, a database/sql driver backed by the
// local Rails model (so the legacy path's validateAPItoken works without PostgreSQL), and
// the reference implementations the oracles use (portable data hash, token salting,
// signature rewriting), each written from the documentation, not from the Go code.

import (
	"bytes"
	"context"
	"crypto/hmac"
	"crypto/md5"
	"crypto/sha1"
	"database/sql"
	"database/sql/driver"
	"encoding/hex"
	"encoding/json"
	"fmt"
	"io"
	"net/http"
	"net/http/httptest"
	"os"
	"regexp"
	"strconv"
	"strings"
	"sync"
	"sync/atomic"
	"time"

	"git.arvados.org/arvados.git/sdk/go/arvados"
	"git.arvados.org/arvados.git/sdk/go/ctxlog"
	"github.com/jmoiron/sqlx"
	"github.com/sirupsen/logrus"
	"verif.local/vsim"
)

const (
	homeID    = "zzzzz"
	railsHost = "rails.zzzzz.sim:8000"
	rootToken = "systemroottokensystemroottokensystemroottokensys"
)

var allRemoteIDs = []string{"zaaaa", "zbbbb", "zcccc", "zdddd"}

func remoteHost(id string) string { return id + ".remote.sim" }

// clusterOfHost returns "" for the home Rails API, the cluster id for a remote host, "?" otherwise.
func clusterOfHost(host string) string {
	if host == railsHost {
		return ""
	}
	if strings.HasSuffix(host, ".remote.sim") && len(host) == 5+len(".remote.sim") {
		return host[:5]
	}
	return "?"
}

// ---- transport -----------------------------------------------------------------------
//
// Same semantics as vsim.Net (request parked until the scheduler grants it; the node's
// handler runs on the root; strictly positive latency; hang-until-cancelled), but the
// canonical identity of a pending request is (method, host, path) only: the controller
// builds list queries by ranging over Go maps, so query strings and bodies differ from
// run to run in element order and must not reach the scheduler's sort key or the log.
// The harness keeps at most one request per (host, path) in flight unless the concurrent
// requests are interchangeable (identical request, answer a pure function of the request).

type fedNet struct {
	w         *vsim.World
	handler   func(*vsim.NetRequest) *vsim.NetReply
	onDeliver func(*vsim.NetRequest, *vsim.NetReply)
	total     int
}

type fedBody struct {
	r   *bytes.Reader
	err error
}

func (b *fedBody) Read(p []byte) (int, error) {
	n, err := b.r.Read(p)
	if err == io.EOF && b.err != nil {
		err = b.err
	}
	return n, err
}
func (b *fedBody) Close() error { return nil }

func (n *fedNet) RoundTrip(req *http.Request) (*http.Response, error) {
	w := n.w
	var body []byte
	if req.Body != nil {
		var err error
		body, err = io.ReadAll(req.Body)
		req.Body.Close()
		if err != nil {
			return nil, fmt.Errorf("simulated transport: reading request body: %w", err)
		}
	}
	ctx := req.Context()
	nr := &vsim.NetRequest{Method: req.Method, Host: req.URL.Host, Path: req.URL.Path, Query: req.URL.RawQuery,
		Header: req.Header.Clone(), Body: body, Ctx: ctx, Raw: req}
	key := req.Method + " " + req.URL.Host + req.URL.Path
	rep := w.Park("net-send", key, nil, func() any {
		n.total++
		nr.Seq = n.total
		if err := ctx.Err(); err != nil {
			// cancelled before it was sent: no node sees it
			return &vsim.NetReply{Err: err, Hang: true}
		}
		r := n.handler(nr)
		if r == nil {
			r = &vsim.NetReply{Err: vsim.ErrConnRefused}
		}
		if r.Latency <= 0 {
			r.Latency = time.Millisecond
		}
		return r
	}).(*vsim.NetReply)
	if rep.Hang {
		<-ctx.Done()
		w.Park("net-cancelled", key, nil, nil)
		return nil, ctx.Err()
	}
	t := time.NewTimer(rep.Latency)
	select {
	case <-t.C:
	case <-ctx.Done():
	}
	if ctx.Err() != nil {
		// (when the timer and the cancellation are both ready, select picks at random:
		// the outcome must not depend on that pick)
		t.Stop()
		w.Park("net-cancelled", key, nil, nil)
		return nil, ctx.Err()
	}
	w.Park("net-recv", key, nil, func() any {
		if n.onDeliver != nil && ctx.Err() == nil {
			n.onDeliver(nr, rep)
		}
		return nil
	})
	if err := ctx.Err(); err != nil {
		return nil, err
	}
	if rep.Err != nil {
		return nil, rep.Err
	}
	h := http.Header{}
	if rep.Header != nil {
		h = rep.Header.Clone()
	}
	if h.Get("Content-Type") == "" {
		h.Set("Content-Type", "application/json; charset=utf-8")
	}
	h.Set("Content-Length", strconv.Itoa(len(rep.Body)))
	return &http.Response{
		StatusCode: rep.Status, Status: strconv.Itoa(rep.Status) + " " + http.StatusText(rep.Status),
		Proto: "HTTP/1.1", ProtoMajor: 1, ProtoMinor: 1,
		Header: h, Request: req, ContentLength: int64(len(rep.Body)),
		Body: &fedBody{r: bytes.NewReader(rep.Body), err: rep.BodyErr},
	}, nil
}

func jsonReply(status int, v any) *vsim.NetReply {
	b, _ := json.Marshal(v)
	return &vsim.NetReply{Status: status, Body: append(b, '\n')}
}

func errReply(status int, msg string) *vsim.NetReply {
	return jsonReply(status, map[string]any{"errors": []string{msg}})
}

// ---- the system under test -------------------------------------------------------------

type fedSys struct {
	w       *vsim.World
	cluster *arvados.Cluster
	h       *Handler
	net     *fedNet
	tokens  *tokenTable
	db      *sqlx.DB
	restore []func()
	logger  *logrus.Logger
}

type fedConfig struct {
	remotes  []string
	legacy   bool
	wildcard bool // add a "*" entry to RemoteClusters
	maxItems int
	maxAmp   int
	timeout  time.Duration
	tokens   *tokenTable
}

var transportMu sync.Mutex

// newFedSys installs the simulated transport in every place the controller takes its
// outbound HTTP from, builds the real Handler for the drawn configuration and runs its
// setup on the root (rpc.NewConn captures http.DefaultTransport at that moment).
func newFedSys(w *vsim.World, cfg fedConfig, handler func(*vsim.NetRequest) *vsim.NetReply) *fedSys {
	s := &fedSys{w: w, tokens: cfg.tokens}
	s.net = &fedNet{w: w, handler: handler}
	oldDT, oldSC, oldIC := http.DefaultTransport, arvados.DefaultSecureClient.Transport, arvados.InsecureHTTPClient.Transport
	http.DefaultTransport = s.net
	arvados.DefaultSecureClient.Transport = s.net
	arvados.InsecureHTTPClient.Transport = s.net
	s.restore = append(s.restore, func() {
		http.DefaultTransport, arvados.DefaultSecureClient.Transport, arvados.InsecureHTTPClient.Transport = oldDT, oldSC, oldIC
	})

	c := &arvados.Cluster{ClusterID: homeID, SystemRootToken: rootToken, ForceLegacyAPI14: cfg.legacy}
	c.API.MaxItemsPerResponse = cfg.maxItems
	c.API.MaxRequestAmplification = cfg.maxAmp
	c.API.RequestTimeout = arvados.Duration(cfg.timeout)
	c.Collections.BlobSigningTTL = arvados.Duration(336 * time.Hour)
	c.Services.RailsAPI.InternalURLs = map[arvados.URL]arvados.ServiceInstance{{Scheme: "https", Host: railsHost, Path: "/"}: {}}
	c.Services.Controller.ExternalURL = arvados.URL{Scheme: "https", Host: "zzzzz.home.sim", Path: "/"}
	c.Services.Controller.InternalURLs = map[arvados.URL]arvados.ServiceInstance{{Scheme: "http", Host: "ctrl.zzzzz.sim:8003", Path: "/"}: {}}
	c.RemoteClusters = map[string]arvados.RemoteCluster{}
	for _, id := range cfg.remotes {
		c.RemoteClusters[id] = arvados.RemoteCluster{Host: remoteHost(id), Proxy: true, Scheme: "https"}
	}
	if cfg.wildcard {
		c.RemoteClusters["*"] = arvados.RemoteCluster{Scheme: "https"}
	}
	s.cluster = c
	s.h = &Handler{Cluster: c}
	if cfg.tokens != nil {
		s.db = sqlx.NewDb(sql.OpenDB(fakeConnector{cfg.tokens}), "postgres")
		s.h.pgdb = s.db
	}
	s.logger = logrus.New()
	s.logger.Out = io.Discard
	s.logger.Level = logrus.PanicLevel
	s.h.setupOnce.Do(s.h.setup)
	return s
}

func (s *fedSys) close() {
	if s.db != nil {
		s.db.Close()
	}
	for _, f := range s.restore {
		f()
	}
}

// clientReq describes one request a client sends to the home controller; it is generated
// completely on the root before the client task starts.
type clientReq struct {
	Method      string
	Path        string
	Query       string // raw query
	Header      http.Header
	ContentType string
	Body        string
	Note        string // for the log
}

func (s *fedSys) serve(cr *clientReq) *httptest.ResponseRecorder {
	target := "https://zzzzz.home.sim" + cr.Path
	if cr.Query != "" {
		target += "?" + cr.Query
	}
	var body io.Reader
	if cr.Body != "" || cr.ContentType != "" {
		body = strings.NewReader(cr.Body)
	}
	req := httptest.NewRequest(cr.Method, target, body)
	for k, v := range cr.Header {
		req.Header[k] = append([]string(nil), v...)
	}
	if cr.ContentType != "" {
		req.Header.Set("Content-Type", cr.ContentType)
	}
	req = req.WithContext(ctxlog.Context(context.Background(), s.logger))
	rec := httptest.NewRecorder()
	s.h.ServeHTTP(rec, req)
	return rec
}

// ---- token table: the local Rails model's api_client_authorizations ----------------------

type tokenRow struct {
	UUID     string // <cluster>-gj3su-...
	Secret   string // api_token column
	UserUUID string
}

// tokenTable is filled on the root before the handler is built and never modified
// afterwards: the fake database driver reads it from client tasks.
type tokenTable struct {
	rows []tokenRow
	// fault: the failAt-th query of the run (1-based; 0 = never) fails with a connection error
	// after the connection had been established and pinged (drawn on the root before the run)
	failAt  int32
	queries int32
}

func (t *tokenTable) bySecret(secret string) *tokenRow {
	if t == nil {
		return nil
	}
	for i := range t.rows {
		if t.rows[i].Secret == secret {
			return &t.rows[i]
		}
	}
	return nil
}

// lookup resolves a token string the way the Rails API does: a v2 token must match uuid
// and secret; a bare token matches the secret column.
func (t *tokenTable) lookup(token string) *tokenRow {
	if strings.HasPrefix(token, "v2/") {
		p := strings.Split(token, "/")
		if len(p) < 3 {
			return nil
		}
		r := t.bySecret(p[2])
		if r == nil || r.UUID != p[1] {
			return nil
		}
		return r
	}
	return t.bySecret(token)
}

// ---- database/sql driver over the token table ---------------------------------------------

type fakeConnector struct{ t *tokenTable }

func (c fakeConnector) Connect(context.Context) (driver.Conn, error) { return &fakeConn{c.t}, nil }
func (c fakeConnector) Driver() driver.Driver                        { return fakeDriver{} }

type fakeDriver struct{}

func (fakeDriver) Open(string) (driver.Conn, error) {
	return nil, fmt.Errorf("fake driver: use the connector")
}

type fakeConn struct{ t *tokenTable }

func (c *fakeConn) Prepare(q string) (driver.Stmt, error) {
	return nil, fmt.Errorf("fake db: prepare not supported: %s", q)
}
func (c *fakeConn) Close() error               { return nil }
func (c *fakeConn) Begin() (driver.Tx, error)  { return nil, fmt.Errorf("fake db: no transactions") }
func (c *fakeConn) Ping(context.Context) error { return nil }
func (c *fakeConn) QueryContext(ctx context.Context, q string, args []driver.NamedValue) (driver.Rows, error) {
	if !strings.Contains(q, "FROM api_client_authorizations") || len(args) != 1 {
		return nil, fmt.Errorf("fake db: unsupported query %q", q)
	}
	if n := atomic.AddInt32(&c.t.queries, 1); c.t.failAt > 0 && n == c.t.failAt {
		if w := vsim.Cur(); w != nil {
			w.Fault("database-query-error")
		}
		return nil, fmt.Errorf("fake db: read tcp 10.0.0.1:5432: connection reset by peer")
	}
	secret, _ := args[0].Value.(string)
	rows := &fakeRows{}
	if r := c.t.bySecret(secret); r != nil {
		rows.vals = [][]driver.Value{{r.UUID, `["all"]`, r.UserUUID}}
		if w := vsim.Cur(); w != nil {
			w.Probe("token-resolved-by-database")
		}
	}
	return rows, nil
}
func (c *fakeConn) ExecContext(ctx context.Context, q string, args []driver.NamedValue) (driver.Result, error) {
	return nil, fmt.Errorf("fake db: exec not supported")
}

type fakeRows struct {
	vals [][]driver.Value
	pos  int
}

func (r *fakeRows) Columns() []string { return []string{"uuid", "scopes", "user_uuid"} }
func (r *fakeRows) Close() error      { return nil }
func (r *fakeRows) Next(dest []driver.Value) error {
	if r.pos >= len(r.vals) {
		return io.EOF
	}
	copy(dest, r.vals[r.pos])
	r.pos++
	return nil
}

// ---- reference implementations (written from the documentation) ---------------------------

var refLocatorRe = regexp.MustCompile(`^[0-9a-f]{32}\+[0-9]+(\+[^ +\n]*)*$`)
var refSigHintRe = regexp.MustCompile(`^A([0-9a-f]+)@([0-9a-f]+)$`)

// refStripManifest: "the manifest text with every locator reduced to hash+size".
// A manifest is lines of space-separated tokens; the first token of a line is the stream
// name; block locators are <32 hex>+<size>[+hint]...
func refStripManifest(mt string) string {
	var out strings.Builder
	lines := strings.SplitAfter(mt, "\n")
	for _, line := range lines {
		nl := ""
		if strings.HasSuffix(line, "\n") {
			nl, line = "\n", line[:len(line)-1]
		}
		toks := strings.Split(line, " ")
		for i, t := range toks {
			if i > 0 {
				out.WriteByte(' ')
				if refLocatorRe.MatchString(t) {
					p := strings.SplitN(t, "+", 3)
					t = p[0] + "+" + p[1]
				}
			}
			out.WriteString(t)
		}
		out.WriteString(nl)
	}
	return out.String()
}

// refPDH: md5 of the stripped manifest, "+", length of the stripped manifest.
func refPDH(mt string) string {
	s := refStripManifest(mt)
	sum := md5.Sum([]byte(s))
	return hex.EncodeToString(sum[:]) + "+" + strconv.Itoa(len(s))
}

// refRewrite: what a manifest sent by cluster `remote` must look like when relayed: every
// permission hint +A<sig>@<exp> of a block locator becomes +R<remote>-<sig>@<exp>; nothing
// else changes.
func refRewrite(mt, remote string) string {
	var out strings.Builder
	for _, line := range strings.SplitAfter(mt, "\n") {
		nl := ""
		if strings.HasSuffix(line, "\n") {
			nl, line = "\n", line[:len(line)-1]
		}
		toks := strings.Split(line, " ")
		for i, t := range toks {
			if i > 0 {
				out.WriteByte(' ')
				if refLocatorRe.MatchString(t) {
					parts := strings.Split(t, "+")
					for j := 2; j < len(parts); j++ {
						if m := refSigHintRe.FindStringSubmatch(parts[j]); m != nil {
							parts[j] = "R" + remote + "-" + m[1] + "@" + m[2]
						}
					}
					t = strings.Join(parts, "+")
				}
			}
			out.WriteString(t)
		}
		out.WriteString(nl)
	}
	return out.String()
}

var refHex40 = regexp.MustCompile(`^[0-9a-f]{40}$`)
var refLegacyTok = regexp.MustCompile(`^[0-9a-z]{41,}$`)

func refHMAC(secret, remote string) string {
	m := hmac.New(sha1.New, []byte(secret))
	m.Write([]byte(remote))
	return hex.EncodeToString(m.Sum(nil))
}

// refSalt: the token that may be sent to cluster `remote` in place of tok.
//   - v2/<uuid>/<secret>[/...] with an unsalted secret -> v2/<uuid>/hex(HMAC-SHA1(key=secret, msg=remote))
//   - v2 token whose secret is already a 40-hex salt -> unchanged
//   - legacy token known locally -> salted from its v2 form, unless it belongs to `remote`
//   - anything else -> unchanged
func refSalt(tok, remote string, tt *tokenTable) string {
	p := strings.Split(tok, "/")
	if len(p) >= 3 && p[0] == "v2" {
		if refHex40.MatchString(p[2]) {
			return tok
		}
		return "v2/" + p[1] + "/" + refHMAC(p[2], remote)
	}
	if refLegacyTok.MatchString(tok) {
		if r := tt.bySecret(tok); r != nil {
			if strings.HasPrefix(r.UUID, remote) {
				return tok
			}
			return "v2/" + r.UUID + "/" + refHMAC(r.Secret, remote)
		}
	}
	return tok
}

// ---- small generators -----------------------------------------------------------------

const alnum = "0123456789abcdefghijklmnopqrstuvwxyz"

func randAlnum(r *vsim.Rand, n int) string {
	b := make([]byte, n)
	for i := range b {
		b[i] = alnum[r.Intn(len(alnum))]
	}
	return string(b)
}

func randHex(r *vsim.Rand, n int) string {
	b := make([]byte, n)
	for i := range b {
		b[i] = alnum[r.Intn(16)]
	}
	return string(b)
}

// fedSkipKnown: set VERIF_FED_SKIP_KNOWN=1 to keep the generators away from the inputs of
// findings already reported (used only while testing the sensitivity of the other oracles).
func fedSkipKnown() bool { return os.Getenv("VERIF_FED_SKIP_KNOWN") == "1" }

// fedIgnored: VERIF_FED_IGNORE=sig1,sig2 turns violations with these signatures into probes
// (used only to look for further findings behind ones already reported).
func fedIgnored(sig string) bool {
	for _, s := range strings.Split(os.Getenv("VERIF_FED_IGNORE"), ",") {
		if s != "" && s == sig {
			return true
		}
	}
	return false
}

func sortedStrings(m map[string]bool) []string { return vsim.SortedKeys(m) }
