//go:build go1.26

package controller

import (
	"encoding/json"
	"fmt"
	"strings"
	"sync/atomic"
	"time"

	"verif.local/vsim"
)

// ---- C18: federated collection fetches are verified, only signatures are rewritten ---------

// genManifest draws a well-formed manifest with signed, unsigned and multiply-hinted locators.
func genManifest(r *vsim.Rand, allowUnsignedHinted bool) string {
	var b strings.Builder
	nStreams := 1 + r.Intn(3)
	for s := 0; s < nStreams; s++ {
		if s == 0 {
			b.WriteString(".")
		} else {
			fmt.Fprintf(&b, "./d%d", s)
			if r.Intn(3) == 0 {
				b.WriteString(`/sub\040dir`)
			}
			if r.Intn(6) == 0 {
				b.WriteString("+Ab@c")
			}
		}
		nBlocks := 1 + r.Intn(3)
		total := 0
		for k := 0; k < nBlocks; k++ {
			size := r.Intn(70000)
			total += size
			fmt.Fprintf(&b, " %s+%d", randHex(r, 32), size)
			other := func() string {
				return "+" + string("BCKRZ"[r.Intn(5)]) + randAlnum(r, 1+r.Intn(8))
			}
			sig := func() string { return "+A" + randHex(r, 40) + "@" + randHex(r, 8) }
			style := r.Intn(6)
			if style == 4 && !allowUnsignedHinted {
				style = 0
			}
			switch style {
			case 0: // unsigned
			case 1, 2: // signed
				b.WriteString(sig())
			case 3: // hints before and after the signature
				b.WriteString(other() + sig() + other())
			case 4: // unsigned but hinted
				b.WriteString(other())
			case 5: // signature first, then two other hints
				b.WriteString(sig() + other() + other())
			}
		}
		nFiles := 1 + r.Intn(3)
		pos := 0
		for f := 0; f < nFiles; f++ {
			l := 0
			if total > pos {
				l = r.Intn(total - pos + 1)
			}
			name := "f" + randAlnum(r, 1+r.Intn(6))
			if r.Intn(4) == 0 {
				name += `\040x`
			}
			if r.Intn(5) == 0 {
				name += ".txt"
			}
			if r.Intn(6) == 0 {
				name += "+A" + randHex(r, 4) + "@" + randHex(r, 2) // a file name may look like a hint
			}
			fmt.Fprintf(&b, " %d:%d:%s", pos, l, name)
			pos += l
		}
		b.WriteString("\n")
	}
	return b.String()
}

// tamperManifest changes exactly one token of mt. kind 0..6 change the portable content;
// kind 7 changes only a signature hint (the portable data hash is unaffected).
func tamperManifest(mt string, kind, where int) (string, string) {
	lines := strings.Split(strings.TrimSuffix(mt, "\n"), "\n")
	li := where % len(lines)
	toks := strings.Split(lines[li], " ")
	var blocks, files []int
	for i, t := range toks {
		if i == 0 {
			continue
		}
		if refLocatorRe.MatchString(t) {
			blocks = append(blocks, i)
		} else {
			files = append(files, i)
		}
	}
	what := ""
	flip := func(c byte) byte {
		if c == '0' {
			return '1'
		}
		return '0'
	}
	switch kind {
	case 0: // one hex digit of a block hash
		i := blocks[where%len(blocks)]
		p := where % 32
		toks[i] = toks[i][:p] + string(flip(toks[i][p])) + toks[i][p+1:]
		what = "block-hash-digit"
	case 1: // block size
		i := blocks[where%len(blocks)]
		p := strings.SplitN(toks[i], "+", 3)
		p[1] = p[1] + "1"
		toks[i] = strings.Join(p, "+")
		what = "block-size"
	case 2: // file token
		i := files[where%len(files)]
		toks[i] = toks[i] + "x"
		what = "file-name"
	case 3: // stream name
		toks[0] = toks[0] + "/t"
		what = "stream-name"
	case 4: // drop a file token (keep at least one)
		if len(files) > 1 {
			i := files[where%len(files)]
			toks = append(toks[:i], toks[i+1:]...)
			what = "file-token-dropped"
		} else {
			toks[files[0]] = "0:0:dropped"
			what = "file-token-replaced"
		}
	case 5: // duplicate a block
		i := blocks[where%len(blocks)]
		toks = append(toks[:i+1], toks[i:]...)
		what = "block-duplicated"
	case 6: // extra whitespace
		toks[0] = toks[0] + " "
		what = "extra-space"
	default: // signature only
		for _, i := range blocks {
			if k := strings.Index(toks[i], "+A"); k >= 0 {
				toks[i] = toks[i][:k+2] + string(flip(toks[i][k+2])) + toks[i][k+3:]
				what = "signature-only"
				break
			}
		}
		if what == "" {
			toks[0] = toks[0] + "/t"
			what = "stream-name"
		}
	}
	lines[li] = strings.Join(toks, " ")
	return strings.Join(lines, "\n") + "\n", what
}

type c18remote struct {
	id        string
	holds     bool
	behaviour string // honest | different | tamper | notfound | err5xx | hang | connerr
	sent      string // manifest text of the last 200 answer
	asked     int
}

type c18delivered struct {
	from string // cluster id, "" = local Rails
	text string
	good bool // an honest answer carrying the requested collection
}

var c18behaviours = []string{"honest", "honest", "honest", "different", "tamper", "notfound", "err5xx", "hang", "connerr"}

func scenC18(w *vsim.World, spec *vsim.Spec) {
	rnd := w.NewRand("gen")
	// in two runs of three the fan-out goroutines may lose the processor before any statement of
	// splitListRequest / tryLocalThenRemotes (rule R9), e.g. between a backend answer and its report
	w.PreemptOn = w.Choose("statement-preemption", 3) != 0
	nRemotes := w.Range("remotes", 1, 4)
	cfg := fedConfig{
		remotes:  allRemoteIDs[:nRemotes],
		legacy:   w.Chance("legacy-path", 500),
		wildcard: w.Chance("wildcard-remote", 300),
		maxItems: 1000,
		// The legacy fan-out starts one plain goroutine per remote and lets them race for a
		// buffered-channel semaphore; which one wins is decided by the Go runtime, not by the
		// simulated world. The limit is therefore drawn from values that never contend.
		maxAmp:  []int{0, nRemotes, nRemotes + 3}[w.Choose("max-amplification", 3)],
		timeout: time.Duration(60+w.Choose("timeout", 540)) * time.Second,
	}
	// VERIF_FED_SKIP_KNOWN=1 (sensitivity testing only) keeps the legacy path away from the
	// input class of the known finding "legacy:unsigned-hinted-locator".
	allowUH := !(cfg.legacy && fedSkipKnown())
	target := genManifest(rnd, allowUH)
	targetPDH := refPDH(target)
	other := genManifest(rnd, allowUH)
	feature := "plain"
	for _, t := range strings.Fields(target) {
		if refLocatorRe.MatchString(t) && strings.Count(t, "+") > 1 && !strings.Contains(t, "+A") {
			feature = "unsigned-hinted-locator"
		}
	}
	pdhParts := strings.SplitN(targetPDH, "+", 2)

	// what the client asks for
	askKind := []string{"pdh", "pdh-digit-off", "pdh-wrong-length", "pdh-hints", "uuid"}[w.Choose("ask", 5)]
	uuidOwner := cfg.remotes[w.Choose("uuid-owner", nRemotes)]
	collUUID := uuidOwner + "-4zz18-" + randAlnum(rnd, 15)
	reqID := targetPDH
	switch askKind {
	case "pdh-digit-off":
		p := w.Choose("digit", 32)
		c := byte('0')
		if targetPDH[p] == '0' {
			c = 'f'
		}
		reqID = targetPDH[:p] + string(c) + targetPDH[p+1:]
	case "pdh-wrong-length":
		switch w.Choose("length-variant", 3) {
		case 0:
			reqID = targetPDH + "0"
		case 1:
			reqID = pdhParts[0] + "+" + pdhParts[1][:len(pdhParts[1])-1]
			if len(pdhParts[1]) == 1 {
				reqID = pdhParts[0] + "+7" + pdhParts[1]
			}
		default:
			reqID = pdhParts[0] + "+1" + pdhParts[1]
		}
	case "pdh-hints":
		reqID = targetPDH + []string{"+K" + homeID, "+A" + randHex(rnd, 40) + "@" + randHex(rnd, 8), "+Zx+Bfoo"}[w.Choose("hint-variant", 3)]
	case "uuid":
		reqID = collUUID
	}
	// the hash+size part of the request: what a 200 answer must hash to
	wantPDH := ""
	if askKind != "uuid" {
		p := strings.SplitN(reqID, "+", 3)
		wantPDH = p[0] + "+" + p[1]
	}

	remotes := map[string]*c18remote{}
	for _, id := range cfg.remotes {
		r := &c18remote{id: id}
		r.holds = w.Chance("holds "+id, 500)
		r.behaviour = c18behaviours[w.Choose("behaviour "+id, len(c18behaviours))]
		if askKind == "uuid" {
			r.holds = id == uuidOwner
		}
		remotes[id] = r
	}
	localBehaviour := []string{"notfound", "notfound", "notfound", "notfound", "holds", "err5xx"}[w.Choose("local", 6)]
	if askKind == "uuid" {
		localBehaviour = "notfound"
	}

	var delivered []c18delivered
	// honest answers that carry the requested collection: who sends it and when it reaches the controller
	type goodAnswer struct {
		from    string
		arrives time.Duration
	}
	var goodAnswers []goodAnswer
	var finished atomic.Bool
	lat := func() time.Duration {
		switch w.Choose("latency-class", 3) {
		case 0:
			return time.Duration(1+w.Choose("lat-ms", 50)) * time.Millisecond
		case 1:
			return time.Duration(1+w.Choose("lat-s", 30)) * time.Second
		}
		return time.Duration(1+w.Choose("lat-us", 900)) * time.Microsecond
	}
	collJSON := func(uuid, pdh, mt string) map[string]any {
		return map[string]any{"kind": "arvados#collection", "uuid": uuid, "portable_data_hash": pdh, "manifest_text": mt,
			"owner_uuid": uuid[:5] + "-tpzed-000000000000000", "name": "c", "modified_at": "2000-01-01T00:00:00.000000000Z"}
	}
	// does `id` (as it appears in the request path) name the target collection for an honest node?
	honestHas := func(id string) bool {
		if id == collUUID {
			return true
		}
		p := strings.SplitN(id, "+", 3)
		return len(p) >= 2 && p[0]+"+"+p[1] == targetPDH
	}
	var sys *fedSys
	handler := func(r *vsim.NetRequest) *vsim.NetReply {
		cl := clusterOfHost(r.Host)
		auth := r.Header.Get("Authorization")
		w.Logf("wire #%d %s %s%s from-cluster=%q auth=%s", r.Seq, r.Method, r.Host, r.Path, cl, auth)
		if !strings.HasPrefix(r.Path, "/arvados/v1/collections/") {
			return errReply(404, "no such route in the model")
		}
		id := strings.TrimPrefix(r.Path, "/arvados/v1/collections/")
		if cl == "" { // local Rails
			rep := errReply(404, "Path not found")
			switch localBehaviour {
			case "holds":
				if honestHas(id) {
					rep = jsonReply(200, collJSON(homeID+"-4zz18-"+strings.Repeat("0", 15), targetPDH, target))
					w.Probe("local-holds")
				}
			case "err5xx":
				rep = errReply(500, "simulated local failure")
				w.Fault("local-5xx")
			}
			rep.Latency = lat()
			if rep.Status == 200 {
				goodAnswers = append(goodAnswers, goodAnswer{"", w.Elapsed() + rep.Latency})
			}
			return rep
		}
		rm := remotes[cl]
		if rm == nil {
			w.Violation("c18/request-to-unconfigured-host", "%s %s%s", r.Method, r.Host, r.Path)
			return nil
		}
		rm.asked++
		rep := errReply(404, "Path not found")
		uuid := rm.id + "-4zz18-" + strings.Repeat("1", 15)
		if id == collUUID {
			uuid = collUUID
		}
		b := rm.behaviour
		switch b {
		case "honest":
			if rm.holds && honestHas(id) {
				rm.sent = target
				rep = jsonReply(200, collJSON(uuid, targetPDH, target))
			}
		case "different":
			claimed := wantPDH
			if claimed == "" || w.Chance("different-claims-own-pdh", 300) {
				claimed = refPDH(other)
			}
			rm.sent = other
			rep = jsonReply(200, collJSON(uuid, claimed, other))
			w.Fault("remote-different-manifest")
		case "tamper":
			t, what := tamperManifest(target, w.Choose("tamper-kind", 8), w.Choose("tamper-where", 64))
			claimed := wantPDH
			if claimed == "" {
				claimed = targetPDH
			}
			rm.sent = t
			rep = jsonReply(200, collJSON(uuid, claimed, t))
			w.Fault("remote-tamper-" + what)
		case "notfound":
			w.Fault("remote-404")
		case "err5xx":
			rep = errReply([]int{500, 502, 503}[w.Choose("5xx", 3)], "simulated remote failure")
			w.Fault("remote-5xx")
		case "hang":
			w.Fault("remote-hang")
			return &vsim.NetReply{Hang: true}
		case "connerr":
			w.Fault("remote-connerr")
			return &vsim.NetReply{Err: vsim.ErrConnReset, Latency: lat()}
		}
		rep.Latency = lat()
		if b == "honest" && rep.Status == 200 {
			goodAnswers = append(goodAnswers, goodAnswer{cl, w.Elapsed() + rep.Latency})
		}
		return rep
	}
	sys = newFedSys(w, cfg, handler)
	defer sys.close()
	sys.net.onDeliver = func(r *vsim.NetRequest, rep *vsim.NetReply) {
		if finished.Load() || rep.Status != 200 || rep.Err != nil {
			return
		}
		var col struct {
			ManifestText string `json:"manifest_text"`
		}
		if json.Unmarshal(rep.Body, &col) != nil {
			return
		}
		cl := clusterOfHost(r.Host)
		good := col.ManifestText == target && (cl == "" || remotes[cl].behaviour == "honest")
		delivered = append(delivered, c18delivered{from: cl, text: col.ManifestText, good: good})
		w.Logf("delivered 200 from %q good=%v", cl, good)
	}

	cr := &clientReq{Method: "GET", Path: "/arvados/v1/collections/" + reqID,
		Header: map[string][]string{"Authorization": {"Bearer v2/" + homeID + "-gj3su-" + randAlnum(rnd, 15) + "/" + randAlnum(rnd, 50)}}}
	w.Logf("request ask=%s legacy=%v id=%s target=%s remotes=%d", askKind, cfg.legacy, reqID, targetPDH, nRemotes)
	var code int
	var body []byte
	var deliveredAtReturn []c18delivered
	w.Spawn("client", func() {
		rec := sys.serve(cr)
		code, body = rec.Code, rec.Body.Bytes()
		deliveredAtReturn = append([]c18delivered(nil), delivered...)
		finished.Store(true)
		w.Logf("response %d (%d bytes)", code, len(body))
	})
	w.Run(nil)
	if w.Failed() || w.Truncated() {
		return
	}
	if !finished.Load() {
		w.Violation("c18/request-never-returned", "%s", strings.Join(w.Blocked(), "; "))
		return
	}
	path := "new"
	if cfg.legacy {
		path = "legacy"
	}
	if code == 200 {
		w.Probe("ok-" + askKind)
		var col struct {
			ManifestText string `json:"manifest_text"`
			PDH          string `json:"portable_data_hash"`
		}
		if err := json.Unmarshal(body, &col); err != nil {
			w.Violation("c18/unparsable-200", "%v", err)
			return
		}
		if wantPDH != "" {
			if got := refPDH(col.ManifestText); got != wantPDH {
				w.ViolationSig("c18/wrong-manifest-accepted", path, "request for %s answered 200 with a manifest whose portable data hash is %s (path=%s)", reqID, got, path)
				return
			}
		}
		matched := false
		for _, d := range deliveredAtReturn {
			if d.from == "" && d.text == col.ManifestText {
				matched = true
			} else if d.from != "" && refRewrite(d.text, d.from) == col.ManifestText {
				matched = true
				if d.text != col.ManifestText {
					w.Probe("signatures-rewritten")
				}
			}
		}
		if !matched {
			w.ViolationSig("c18/relayed-text-altered", path, "the manifest handed to the client is not the text of any delivered answer with only +A<sig>@<exp> turned into +R<cluster>-<sig>@<exp> (path=%s): %q", path, col.ManifestText)
			return
		}
	} else {
		w.Probe("error-" + askKind)
		if code < 400 {
			w.Violation("c18/odd-status", "status %d", code)
			return
		}
		if askKind != "uuid" {
			// An honest remote that holds the collection was asked and its answer reaches the
			// controller well before the request's deadline: nothing the other remotes do
			// (errors, wrong manifests, silence) may turn that into a failure.
			for _, g := range goodAnswers {
				if g.arrives+5*time.Second < cfg.timeout {
					w.ViolationSig("c18/honest-answer-lost", path+":"+feature, "request for %s failed with %d although %q was asked, holds the collection and its honest answer arrives %s after the start of a request with a %s deadline (path=%s): %s", reqID, code, g.from, g.arrives, cfg.timeout, path, strings.TrimSpace(string(body)))
					return
				}
			}
			for _, d := range deliveredAtReturn {
				if d.good {
					w.ViolationSig("c18/honest-answer-lost", path+":"+feature, "request for %s failed with %d although an honest answer carrying the collection had been delivered from %q (path=%s): %s", reqID, code, d.from, path, strings.TrimSpace(string(body)))
					return
				}
			}
		}
	}
	st := []string{askKind, path, fmt.Sprint(code), localBehaviour}
	for _, id := range cfg.remotes {
		st = append(st, fmt.Sprintf("%s:%v:%d", remotes[id].behaviour, remotes[id].holds, remotes[id].asked))
	}
	w.SetEndState(strings.Join(st, "|"))
}
