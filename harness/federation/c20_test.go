//go:build go1.26

package controller

import (
	"encoding/json"
	"fmt"
	"net/http"
	"net/url"
	"sort"
	"strings"
	"time"

	"verif.local/vsim"
)

// ---- C20: federated list-by-UUID --------------------------------------------------------

type c20obj struct {
	uuid, name string
	modified   time.Time
}

type c20backend struct {
	cluster  string // "zzzzz" = the local Rails API
	objs     []*c20obj
	pageSize int
	order    int // 0 modified_at desc, 1 uuid asc, 2 shuffled per call
	short    bool
	calls    int
	served   map[string]int // uuid -> number of delivered answers that contained it
}

type c20kind struct{ path, infix, kind string }

var c20kinds = []c20kind{
	{"collections", "4zz18", "arvados#collection"},
	{"container_requests", "xvhdp", "arvados#containerRequest"},
	{"groups", "j7d0g", "arvados#group"},
}

// parseListParams extracts the API parameters of a list call from query string and form body.
func parseListParams(r *vsim.NetRequest) url.Values {
	v, _ := url.ParseQuery(r.Query)
	if strings.HasPrefix(r.Header.Get("Content-Type"), "application/x-www-form-urlencoded") {
		if f, err := url.ParseQuery(string(r.Body)); err == nil {
			for k, vals := range f {
				v[k] = append(v[k], vals...)
			}
		}
	}
	return v
}

// c20match: does the object satisfy the filters (uuid in/=, name =)? ok=false: unsupported filter.
func c20match(o *c20obj, filters [][]any) bool {
	for _, f := range filters {
		if len(f) != 3 {
			return false
		}
		attr, _ := f[0].(string)
		op, _ := f[1].(string)
		val := o.uuid
		if attr == "name" {
			val = o.name
		} else if attr != "uuid" {
			return false
		}
		switch op {
		case "=":
			if s, _ := f[2].(string); s != val {
				return false
			}
		case "!=":
			if s, _ := f[2].(string); s == val {
				return false
			}
		case "in":
			l, _ := f[2].([]any)
			hit := false
			for _, x := range l {
				if s, _ := x.(string); s == val {
					hit = true
				}
			}
			if !hit {
				return false
			}
		default:
			return false
		}
	}
	return true
}

func scenC20(w *vsim.World, spec *vsim.Spec) {
	rnd := w.NewRand("gen")
	// in two runs of three the fan-out goroutines may lose the processor before any statement of
	// splitListRequest / tryLocalThenRemotes (rule R9), e.g. between a backend answer and its report
	w.PreemptOn = w.Choose("statement-preemption", 3) != 0
	nRemotes := w.Range("remotes", 1, 3)
	maxItems := []int{1000, 1000, 1000, 1000, 3, 5, 8, 12}[w.Choose("max-items-per-response", 8)]
	cfg := fedConfig{
		remotes:  allRemoteIDs[:nRemotes],
		legacy:   false,
		wildcard: w.Chance("wildcard-remote", 300),
		maxItems: maxItems,
		maxAmp:   0,
		timeout:  300 * time.Second,
	}
	kind := c20kinds[w.Choose("kind", len(c20kinds))]
	clusters := append([]string{homeID}, cfg.remotes...)
	const unknownCluster = "zqqqq"

	// ---- objects and backends -----------------------------------------------------------
	backends := map[string]*c20backend{}
	exists := map[string]*c20obj{}
	var allUUIDs []string
	base := time.Date(1999, 6, 1, 0, 0, 0, 0, time.UTC)
	for _, c := range clusters {
		be := &c20backend{cluster: c, served: map[string]int{}}
		n := w.Choose("objects "+c, 8)
		for i := 0; i < n; i++ {
			o := &c20obj{uuid: c + "-" + kind.infix + "-" + randAlnum(rnd, 15)}
			o.name = "name-of-" + o.uuid
			o.modified = base.Add(time.Duration(rnd.Intn(1000000)) * time.Second)
			be.objs = append(be.objs, o)
			exists[o.uuid] = o
			allUUIDs = append(allUUIDs, o.uuid)
		}
		be.pageSize = 1 + w.Choose("page-size "+c, max(n, 1))
		be.order = w.Choose("page-order "+c, 3)
		be.short = w.Chance("short-pages "+c, 300)
		backends[c] = be
	}

	// ---- the request ---------------------------------------------------------------------
	unknownOK := w.Chance("unknown-prefixes", 200)
	malformedOK := w.Chance("malformed-uuids", 300)
	pick := func() string {
		c := w.Choose("uuid-class", 8)
		if (c == 5 && !unknownOK) || (c == 6 && !malformedOK) {
			c = 0
		}
		switch {
		case c <= 3 && len(allUUIDs) > 0:
			return allUUIDs[w.Choose("existing", len(allUUIDs))]
		case c <= 4:
			return clusters[w.Choose("missing-cluster", len(clusters))] + "-" + kind.infix + "-" + randAlnum(rnd, 15)
		case c == 5:
			return unknownCluster + "-" + kind.infix + "-" + randAlnum(rnd, 15)
		case c == 6:
			return []string{"", "zzzzz-" + kind.infix + "-short", "not-a-uuid", clusters[len(clusters)-1] + "-" + kind.infix + "-" + randAlnum(rnd, 16), randAlnum(rnd, 26)}[w.Choose("malformed", 5)]
		default:
			if len(allUUIDs) > 0 {
				return allUUIDs[w.Choose("existing", len(allUUIDs))]
			}
			return homeID + "-" + kind.infix + "-" + randAlnum(rnd, 15)
		}
	}
	var filters [][]any
	var filterSets []map[string]bool
	listed := 0
	nFilters := []int{1, 1, 1, 2, 3}[w.Choose("uuid-filters", 5)]
	var firstList []string
	for i := 0; i < nFilters; i++ {
		set := map[string]bool{}
		if i > 0 && w.Chance("filter-is-equals", 300) {
			u := pick()
			if len(firstList) > 0 && w.Chance("equals-from-first", 700) {
				u = firstList[w.Choose("which", len(firstList))]
			}
			filters = append(filters, []any{"uuid", "=", u})
			set[u] = true
			listed++
		} else {
			var l []string
			if i > 0 && len(firstList) > 0 {
				// later filters mostly overlap the first one, so that the intersection matters
				for _, u := range firstList {
					if !w.Chance("drop-from-later-filter", 150) {
						l = append(l, u)
					}
				}
			}
			n := 1 + w.Choose("list-length", 10)
			if i > 0 {
				n = w.Choose("extra-in-later-filter", 3)
			}
			for k := 0; k < n; k++ {
				l = append(l, pick())
			}
			if len(l) > 0 && w.Chance("duplicate-uuid", 250) {
				l = append(l, l[w.Choose("dup-of", len(l))])
			}
			if i == 0 {
				firstList = l
			}
			anyl := make([]any, len(l))
			for k, u := range l {
				anyl[k] = u
				set[u] = true
			}
			filters = append(filters, []any{"uuid", "in", anyl})
			listed += len(l)
		}
		filterSets = append(filterSets, set)
	}
	// U: the UUIDs that satisfy every uuid filter and can name an object at all
	U := map[string]bool{}
	for u := range filterSets[0] {
		ok := len(u) == 27
		for _, s := range filterSets[1:] {
			ok = ok && s[u]
		}
		if ok {
			U[u] = true
		}
	}
	involved := map[string]bool{}
	for u := range U {
		involved[u[:5]] = true
	}
	spansRemote, unknownInvolved := false, false
	for c := range involved {
		if c != homeID {
			spansRemote = true
		}
		if backends[c] == nil {
			unknownInvolved = true
		}
	}
	var expect []string
	for _, u := range sortedStrings(U) {
		if exists[u] != nil {
			expect = append(expect, u)
		}
	}

	// unsplittable variants
	params := url.Values{}
	mustReject, mayReject := "", ""
	count := []string{"none", "none", "none", "none", "none", "none", "exact", ""}[w.Choose("count", 8)]
	if count != "" {
		params.Set("count", count)
	}
	if count == "exact" {
		mustReject = "count"
	} else if count == "" {
		mayReject = "count-unspecified"
	}
	switch w.Choose("unsplittable", 20) {
	case 1:
		filters = append(filters, []any{"name", "=", "name-of-" + pick()})
		mustReject = "other-filter"
	case 2:
		filters = append(filters, []any{"uuid", "!=", pick()})
		mustReject = "other-operator"
	case 3:
		params.Set("limit", fmt.Sprint(1+w.Choose("limit", 50)))
		mustReject = "limit"
	case 4:
		params.Set("offset", fmt.Sprint(1+w.Choose("offset", 5)))
		mustReject = "offset"
	case 5:
		params.Set("order", []string{"uuid", "modified_at desc", `["name asc"]`}[w.Choose("order", 3)])
		mustReject = "order"
	}
	if len(U) > maxItems {
		mustReject = "more-uuids-than-page-limit"
	} else if listed > maxItems && mustReject == "" {
		mayReject = "listed-uuids-exceed-page-limit-only-with-duplicates-or-non-matching"
	}
	selectMode := w.Choose("select", 4)
	switch selectMode {
	case 1:
		params.Set("select", `["uuid","name"]`)
	case 2:
		params.Set("select", `["name"]`)
	case 3:
		params.Set("select", `["name","uuid","modified_at"]`)
	}
	fj, _ := json.Marshal(filters)
	params.Set("filters", string(fj))
	cr := &clientReq{Method: "GET", Path: "/arvados/v1/" + kind.path, Header: http.Header{"Authorization": {"Bearer v2/" + homeID + "-gj3su-" + randAlnum(rnd, 15) + "/" + randAlnum(rnd, 50)}}}
	if w.Chance("post-as-get", 300) {
		cr.Method = "POST"
		params.Set("_method", "GET")
		cr.ContentType = "application/x-www-form-urlencoded"
		cr.Body = params.Encode()
	} else {
		cr.Query = params.Encode()
	}

	// ---- fault plan: the k-th backend call of the run -------------------------------------
	faultAt := w.Choose("fault-at-call", 7) // 0 = none
	faultKind := []string{"error-5xx", "connection-error", "no-progress", "no-progress-forever", "error-4xx"}[w.Choose("fault-kind", 5)]
	totalCalls := 0
	faultFired := ""
	stickyOn := ""

	handler := func(r *vsim.NetRequest) *vsim.NetReply {
		cl := clusterOfHost(r.Host)
		if cl == "" {
			cl = homeID
		}
		be := backends[cl]
		rep := &vsim.NetReply{Latency: time.Duration(1+w.Choose("lat-ms", 200)) * time.Millisecond}
		if be == nil || r.Path != "/arvados/v1/"+kind.path {
			w.Logf("wire #%d %s %s%s (unexpected)", r.Seq, r.Method, r.Host, r.Path)
			e := errReply(404, "Path not found")
			e.Latency = rep.Latency
			return e
		}
		p := parseListParams(r)
		var fl [][]any
		json.Unmarshal([]byte(p.Get("filters")), &fl)
		var asked []string
		for _, f := range fl {
			if len(f) == 3 {
				if l, ok := f[2].([]any); ok {
					for _, x := range l {
						if s, ok := x.(string); ok {
							asked = append(asked, s)
						}
					}
				} else if s, ok := f[2].(string); ok {
					asked = append(asked, s)
				}
			}
		}
		sort.Strings(asked)
		be.calls++
		totalCalls++
		// termination: every call either returns a requested object not seen before or is the
		// last one to its cluster, so |U| + (number of clusters) calls suffice; twice that is
		// the budget. More means the controller keeps asking without getting anywhere.
		if budget := 2*(len(U)+len(clusters)) + 2; totalCalls > budget {
			w.Violation("c20/looping", "backend call %d for one list request naming %d distinct UUIDs on %d clusters (budget %d); injected fault: %s", totalCalls, len(U), len(involved), budget, faultFired)
			return nil
		}
		w.Logf("wire #%d list call %d at %s (call %d of the run): %d uuids asked, count=%q limit=%q select=%q", r.Seq, be.calls, cl, totalCalls, len(asked), p.Get("count"), p.Get("limit"), p.Get("select"))
		var sel []string
		if s := p.Get("select"); s != "" {
			json.Unmarshal([]byte(s), &sel)
		}
		item := func(o *c20obj) map[string]any {
			full := map[string]any{"kind": kind.kind, "uuid": o.uuid, "name": o.name, "modified_at": o.modified.Format("2006-01-02T15:04:05.000000000Z"), "owner_uuid": cl + "-tpzed-000000000000000"}
			if len(sel) == 0 {
				return full
			}
			m := map[string]any{"kind": kind.kind}
			for _, k := range sel {
				if v, ok := full[k]; ok {
					m[k] = v
				}
			}
			return m
		}
		reply := func(items []map[string]any) *vsim.NetReply {
			if items == nil {
				items = []map[string]any{}
			}
			j := jsonReply(200, map[string]any{"kind": kind.kind + "List", "items": items, "offset": 0, "limit": be.pageSize})
			j.Latency = rep.Latency
			return j
		}
		fault := ""
		if totalCalls == faultAt {
			fault = faultKind
		} else if stickyOn == cl {
			fault = "no-progress-forever"
		}
		switch fault {
		case "error-5xx", "error-4xx":
			faultFired = fault + "@" + cl
			w.Fault("backend-" + fault)
			e := errReply(map[string]int{"error-5xx": 503, "error-4xx": 422}[fault], "simulated backend failure")
			e.Latency = rep.Latency
			return e
		case "connection-error":
			faultFired = fault + "@" + cl
			w.Fault("backend-connection-error")
			rep.Err = vsim.ErrConnReset
			return rep
		case "no-progress", "no-progress-forever":
			// a non-empty page none of whose items was asked for
			faultFired = fault + "@" + cl
			if fault == "no-progress-forever" {
				stickyOn = cl
			}
			w.Fault("backend-" + fault)
			var items []map[string]any
			isAsked := map[string]bool{}
			for _, a := range asked {
				isAsked[a] = true
			}
			for _, o := range be.objs {
				if !isAsked[o.uuid] && len(items) < 2 {
					items = append(items, item(o))
				}
			}
			if len(items) == 0 {
				o := &c20obj{uuid: cl + "-" + kind.infix + "-" + strings.Repeat("9", 15), name: "unrelated", modified: base}
				items = append(items, item(o))
			}
			return reply(items)
		}
		// honest answer: one page of the matching objects
		var match []*c20obj
		for _, o := range be.objs {
			if c20match(o, fl) {
				match = append(match, o)
			}
		}
		switch be.order {
		case 0:
			sort.Slice(match, func(i, j int) bool { return match[j].modified.Before(match[i].modified) })
		case 1:
			sort.Slice(match, func(i, j int) bool { return match[i].uuid < match[j].uuid })
		default:
			for i := len(match) - 1; i > 0; i-- {
				j := w.Choose("shuffle", i+1)
				match[i], match[j] = match[j], match[i]
			}
		}
		n := be.pageSize
		if lim := p.Get("limit"); lim != "" {
			var l int
			if _, err := fmt.Sscan(lim, &l); err == nil && l >= 0 && l < n {
				n = l
			}
		}
		if n > len(match) {
			n = len(match)
		}
		if be.short && n > 1 {
			n = 1 + w.Choose("short-page", n)
			w.Probe("short-page")
		}
		if n < len(match) {
			w.Probe("backend-paged")
		}
		var items []map[string]any
		var uu []string
		for _, o := range match[:n] {
			items = append(items, item(o))
			uu = append(uu, o.uuid)
		}
		out := reply(items)
		r.Header.Set("X-Verif-Items", strings.Join(uu, ","))
		return out
	}
	sys := newFedSys(w, cfg, handler)
	defer sys.close()
	sys.net.onDeliver = func(r *vsim.NetRequest, rep *vsim.NetReply) {
		cl := clusterOfHost(r.Host)
		if cl == "" {
			cl = homeID
		}
		if be := backends[cl]; be != nil && rep.Status == 200 {
			for _, u := range strings.Split(r.Header.Get("X-Verif-Items"), ",") {
				if u != "" {
					be.served[u]++
				}
			}
		}
	}

	w.Logf("request kind=%s filters=%s count=%q mustReject=%q mayReject=%q spansRemote=%v unknown=%v |U|=%d listed=%d maxItems=%d expect=%d fault=%d/%s",
		kind.path, fj, count, mustReject, mayReject, spansRemote, unknownInvolved, len(U), listed, maxItems, len(expect), faultAt, faultKind)
	var code int
	var body []byte
	finished := false
	callsAtReturn := 0
	w.Spawn("client", func() {
		rec := sys.serve(cr)
		code, body = rec.Code, rec.Body.Bytes()
		finished = true
		callsAtReturn = totalCalls
		w.Logf("response %d", code)
	})
	w.Run(nil)
	if w.Failed() {
		return
	}
	if !finished {
		if w.Truncated() {
			w.Violation("c20/livelock", "the list request had not returned after %d scheduler steps and %d backend calls (fault %s)", w.Steps(), totalCalls, faultFired)
		} else {
			w.Violation("c20/request-never-returned", "%s", strings.Join(w.Blocked(), "; "))
		}
		return
	}
	if w.Truncated() {
		return
	}
	_ = callsAtReturn
	var got []string
	gotOK := false
	if code == 200 {
		var resp struct {
			Items []map[string]any `json:"items"`
		}
		if err := json.Unmarshal(body, &resp); err != nil {
			w.Violation("c20/unparsable-200", "%v", err)
			return
		}
		gotOK = true
		for _, it := range resp.Items {
			u, _ := it["uuid"].(string)
			if u == "" {
				n, _ := it["name"].(string)
				u = strings.TrimPrefix(n, "name-of-")
			}
			got = append(got, u)
		}
		sort.Strings(got)
	} else if code < 400 {
		w.Violation("c20/odd-status", "status %d", code)
		return
	}
	errText := strings.TrimSpace(string(body))
	if len(errText) > 300 {
		errText = errText[:300]
	}
	switch {
	case !spansRemote:
		// A query that names no remote object is a plain local list call: the property says
		// nothing about it beyond "no other cluster is involved".
		w.Probe("local-only-query")
		for _, c := range cfg.remotes {
			if backends[c].calls > 0 {
				w.Violation("c20/remote-called-for-local-query", "cluster %s was asked although no requested UUID has its prefix", c)
				return
			}
		}
	case mustReject != "":
		w.Probe("unsplittable-" + mustReject)
		if gotOK {
			w.ViolationSig("c20/unsplittable-query-answered", mustReject, "query spanning clusters %v with %s was answered 200 with %d items", sortedStrings(involved), mustReject, len(got))
			return
		}
		if totalCalls > 0 {
			w.ViolationSig("c20/unsplittable-query-reached-a-backend", mustReject, "query with %s was rejected (%d) only after %d backend call(s)", mustReject, code, totalCalls)
			return
		}
	case !gotOK && mayReject != "" && totalCalls == 0:
		w.Probe("rejected-" + mayReject)
	case unknownInvolved || faultFired != "":
		why := faultFired
		if unknownInvolved {
			why = "unknown-cluster"
			w.Probe("unknown-cluster-involved")
		} else {
			w.Probe("fault-hit-request")
		}
		if gotOK {
			w.ViolationSig("c20/list-returned-despite-failing-cluster", strings.Split(why, "@")[0], "an involved cluster failed (%s) but the request returned 200 with %d of %d expected items: %v", why, len(got), len(expect), got)
			return
		}
	default:
		if !gotOK {
			w.Violation("c20/healthy-query-failed", "all involved clusters %v answered honestly, yet the request failed: %d %s", sortedStrings(involved), code, errText)
			return
		}
		w.Probe("list-ok")
		if len(involved) > 2 {
			w.Probe("list-ok-3plus-clusters")
		}
		if strings.Join(got, ",") != strings.Join(expect, ",") {
			w.Violation("c20/wrong-result-set", "expected each of %v exactly once, got %v", expect, got)
			return
		}
		for _, u := range got {
			if backends[u[:5]].served[u] == 0 {
				w.Violation("c20/item-not-from-home-cluster", "%s was returned but no delivered answer of cluster %s contained it", u, u[:5])
				return
			}
		}
	}
	w.SetEndState(fmt.Sprintf("%s|%d|%d|%s|%s|%v|%s", kind.path, code, len(got), mustReject, mayReject, unknownInvolved, faultFired))
}
