//go:build go1.26

package controller

import "verif.local/vsim"

func scenC20(w *vsim.World, spec *vsim.Spec) {}
