//go:build go1.26

//go:debug asynctimerchan=0

package controller

import (
	"testing"

	"verif.local/vsim"
)

func TestVerif(t *testing.T) {
	vsim.Main(t, map[string]vsim.Scenario{
		"C18": scenC18,
		"C19": scenC19,
		"C20": scenC20,
	})
}
