//go:build go1.26

package controller

import (
	"encoding/base64"
	"encoding/json"
	"fmt"
	"net/http"
	"net/url"
	"sort"
	"strings"
	"time"

	"verif.local/vsim"
)

// ---- C19: a user's token secret never leaves the cluster unsalted ---------------------------

type c19tok struct {
	text   string
	kind   string // v2-39 v2-40 v2-41 v2-50 v2-extra v2-salted legacy-known legacy-unknown opaque
	secret string // what must not appear on the wire to a remote ("" = nothing to protect)
	owner  string // cluster prefix of the token's uuid (legacy-known: of its table row)
}

func (t *c19tok) class() string {
	switch {
	case t.kind == "v2-40":
		return "v2-40char"
	case strings.HasPrefix(t.kind, "v2"):
		return "v2"
	case t.kind == "legacy-known":
		return "legacy"
	}
	return t.kind
}

func genC19Token(w *vsim.World, rnd *vsim.Rand, owners []string, tt *tokenTable, n int, noLegacyFormat, fortyOK bool) *c19tok {
	kinds := []string{"v2-50", "v2-41", "v2-39", "v2-extra", "v2-salted", "legacy-known", "legacy-unknown", "opaque", "v2-40"}
	nk := len(kinds)
	if fedSkipKnown() || !fortyOK {
		nk-- // no 40-character unsalted secrets (finding "40char-secret-treated-as-salted")
	}
	kind := kinds[w.Choose(fmt.Sprintf("token%d-kind", n), nk)]
	if noLegacyFormat && strings.HasPrefix(kind, "legacy-") {
		kind = "v2-50"
	}
	owner := owners[w.Choose(fmt.Sprintf("token%d-owner", n), len(owners))]
	uuid := owner + "-gj3su-" + randAlnum(rnd, 15)
	t := &c19tok{kind: kind, owner: owner}
	switch kind {
	case "v2-39", "v2-40", "v2-41", "v2-50":
		l := map[string]int{"v2-39": 39, "v2-40": 40, "v2-41": 41, "v2-50": 50}[kind]
		t.secret = randAlnum(rnd, l)
		if l != 40 && w.Chance(fmt.Sprintf("token%d-hex-only-secret", n), 300) {
			// an UNSALTED secret that happens to consist of hex digits only (any length but 40)
			t.secret = randHex(rnd, l)
		}
		for refHex40.MatchString(t.secret) {
			t.secret = randAlnum(rnd, l)
		}
		t.text = "v2/" + uuid + "/" + t.secret
	case "v2-extra":
		t.secret = randAlnum(rnd, 41+rnd.Intn(10))
		t.text = "v2/" + uuid + "/" + t.secret + "/" + owner + "-dz642-" + randAlnum(rnd, 15)
	case "v2-salted":
		t.text = "v2/" + uuid + "/" + randHex(rnd, 40)
	case "legacy-known":
		t.text = randAlnum(rnd, 41+rnd.Intn(20))
		t.secret = t.text
		tt.rows = append(tt.rows, tokenRow{UUID: uuid, Secret: t.text, UserUUID: owner + "-tpzed-" + randAlnum(rnd, 15)})
	case "legacy-unknown":
		t.text = randAlnum(rnd, 41+rnd.Intn(20))
	case "opaque":
		t.text = []string{"ya29." + randAlnum(rnd, 30) + "-_" + randAlnum(rnd, 8), randAlnum(rnd, 20), "xyzzy", "v1/" + randAlnum(rnd, 45), strings.ToUpper(randAlnum(rnd, 45))}[rnd.Intn(5)]
	}
	return t
}

type c19shape struct {
	name   string
	legacy int // 0: needs ForceLegacyAPI14=false, 1: needs true, 2: either
	method string
	path   func(g *c19gen) string
	params func(g *c19gen) url.Values
	write  bool
	fanout bool
}

type c19gen struct {
	rnd     *vsim.Rand
	remotes []string
	target  string // remote cluster of single-object shapes
}

func (g *c19gen) uuid(cluster, infix string) string {
	return cluster + "-" + infix + "-" + randAlnum(g.rnd, 15)
}

func (g *c19gen) listParams(infix string) url.Values {
	var uu []string
	for _, r := range g.remotes {
		uu = append(uu, g.uuid(r, infix))
	}
	uu = append(uu, g.uuid(homeID, infix))
	b, _ := json.Marshal([][]any{{"uuid", "in", uu}})
	return url.Values{"filters": {string(b)}, "count": {"none"}}
}

var c19shapes = []c19shape{
	{name: "collection-by-pdh", legacy: 2, method: "GET", fanout: true, path: func(g *c19gen) string {
		return "/arvados/v1/collections/" + randHex(g.rnd, 32) + "+123"
	}},
	{name: "collection-by-uuid", legacy: 2, method: "GET", path: func(g *c19gen) string { return "/arvados/v1/collections/" + g.uuid(g.target, "4zz18") }},
	{name: "container-request-by-uuid", legacy: 2, method: "GET", path: func(g *c19gen) string { return "/arvados/v1/container_requests/" + g.uuid(g.target, "xvhdp") }},
	{name: "group-by-uuid", legacy: 0, method: "GET", path: func(g *c19gen) string { return "/arvados/v1/groups/" + g.uuid(g.target, "j7d0g") }},
	{name: "collection-list", legacy: 2, method: "GET", fanout: true, path: func(g *c19gen) string { return "/arvados/v1/collections" },
		params: func(g *c19gen) url.Values { return g.listParams("4zz18") }},
	{name: "container-request-list", legacy: 2, method: "GET", fanout: true, path: func(g *c19gen) string { return "/arvados/v1/container_requests" },
		params: func(g *c19gen) url.Values { return g.listParams("xvhdp") }},
	{name: "workflow-by-uuid", legacy: 2, method: "GET", path: func(g *c19gen) string { return "/arvados/v1/workflows/" + g.uuid(g.target, "7fd4e") }},
	{name: "container-by-uuid", legacy: 2, method: "GET", path: func(g *c19gen) string { return "/arvados/v1/containers/" + g.uuid(g.target, "dz642") }},
	{name: "link-by-uuid", legacy: 2, method: "GET", path: func(g *c19gen) string { return "/arvados/v1/links/" + g.uuid(g.target, "o0j2j") }},
	{name: "container-list", legacy: 2, method: "GET", fanout: true, path: func(g *c19gen) string { return "/arvados/v1/containers" },
		params: func(g *c19gen) url.Values { return g.listParams("dz642") }},
	{name: "workflow-list", legacy: 2, method: "GET", fanout: true, path: func(g *c19gen) string { return "/arvados/v1/workflows" },
		params: func(g *c19gen) url.Values { return g.listParams("7fd4e") }},
	{name: "workflow-update", legacy: 2, method: "PUT", write: true, path: func(g *c19gen) string { return "/arvados/v1/workflows/" + g.uuid(g.target, "7fd4e") },
		params: func(g *c19gen) url.Values { return url.Values{"workflow": {`{"name":"renamed"}`}} }},
	{name: "workflow-create-at-remote", legacy: 2, method: "POST", write: true, path: func(g *c19gen) string { return "/arvados/v1/workflows" },
		params: func(g *c19gen) url.Values {
			return url.Values{"workflow": {`{"name":"new"}`}, "cluster_id": {g.target}}
		}},
	{name: "link-delete", legacy: 2, method: "DELETE", write: true, path: func(g *c19gen) string { return "/arvados/v1/links/" + g.uuid(g.target, "o0j2j") }},
	{name: "collection-update", legacy: 2, method: "PUT", write: true, path: func(g *c19gen) string { return "/arvados/v1/collections/" + g.uuid(g.target, "4zz18") },
		params: func(g *c19gen) url.Values { return url.Values{"collection": {`{"name":"renamed"}`}} }},
}

var c19placements = []string{"bearer", "oauth2", "basic", "query", "form", "cookie"}

type c19plan struct {
	shape  string
	req    *clientReq
	tokens []*c19tok // in the request, by placement order
	places []string
}

// wireHaystacks returns every piece of text of a forwarded request in which a secret could
// ride, labelled with where it was found.
func wireHaystacks(r *vsim.NetRequest) [][2]string {
	var hs [][2]string
	names := make([]string, 0, len(r.Header))
	for k := range r.Header {
		names = append(names, k)
	}
	sort.Strings(names)
	for _, k := range names {
		loc := "header:" + strings.ToLower(k)
		if k == "Authorization" {
			loc = "authorization"
		} else if k == "Cookie" {
			loc = "cookie"
		}
		for _, v := range r.Header[k] {
			hs = append(hs, [2]string{loc, v})
			for _, piece := range strings.FieldsFunc(v, func(c rune) bool { return c == ' ' || c == ';' || c == ',' || c == '=' && k == "Cookie" }) {
				for _, enc := range []*base64.Encoding{base64.StdEncoding, base64.URLEncoding, base64.RawStdEncoding, base64.RawURLEncoding} {
					if d, err := enc.DecodeString(piece); err == nil && len(d) > 0 {
						hs = append(hs, [2]string{loc, string(d)})
					}
				}
			}
		}
	}
	hs = append(hs, [2]string{"query", r.Query})
	if u, err := url.QueryUnescape(r.Query); err == nil {
		hs = append(hs, [2]string{"query", u})
	}
	hs = append(hs, [2]string{"body", string(r.Body)})
	if u, err := url.QueryUnescape(string(r.Body)); err == nil {
		hs = append(hs, [2]string{"body", u})
	}
	return hs
}

func scenC19(w *vsim.World, spec *vsim.Spec) {
	rnd := w.NewRand("gen")
	nRemotes := w.Range("remotes", 1, 4)
	tt := &tokenTable{}
	// the controller's own database lookup of a legacy token may fail while the request is being handled
	tt.failAt = int32(w.Choose("database-query-fails", 4))
	cfg := fedConfig{
		remotes:  allRemoteIDs[:nRemotes],
		legacy:   w.Chance("force-legacy-api14", 400),
		wildcard: w.Chance("wildcard-remote", 300),
		maxItems: 1000,
		maxAmp:   []int{0, nRemotes + 1, nRemotes + 4}[w.Choose("max-amplification", 3)],
		timeout:  300 * time.Second,
		tokens:   tt,
	}
	owners := append([]string{homeID}, cfg.remotes...)
	owners = append(owners, "zqqqq") // a cluster this one has no configuration for
	g := &c19gen{rnd: rnd, remotes: cfg.remotes}

	// ---- workload: 1-3 requests, each with 1-3 tokens in different places ----------------
	// Input classes that hit findings already reported are switched on per run, so that the
	// other runs are judged to the end.
	cookiesOK := w.Chance("use-cookies", 350)
	formsOK := w.Chance("use-form-tokens", 500)
	fortyOK := w.Chance("use-40-char-secrets", 350)
	var plans []*c19plan
	nReq := 1 + w.Choose("requests", 3)
	ntok := 0
	for i := 0; i < nReq; i++ {
		var ok []c19shape
		for _, s := range c19shapes {
			if s.legacy == 2 || (s.legacy == 1) == cfg.legacy {
				ok = append(ok, s)
			}
		}
		sh := ok[w.Choose("shape", len(ok))]
		g.target = cfg.remotes[w.Choose("target", nRemotes)]
		p := &c19plan{shape: sh.name}
		// A legacy-format token makes every per-remote goroutine of a router fan-out ask the
		// local Rails API the same question at the same time; those requests are
		// indistinguishable on the wire, so which goroutine is served first would be decided
		// by the Go runtime. Legacy-format tokens therefore ride on fan-out requests only
		// when a single remote is involved.
		viaRouter := !cfg.legacy && (strings.HasPrefix(sh.name, "collection") || strings.HasPrefix(sh.name, "container-request") || strings.HasPrefix(sh.name, "group"))
		noLegacyFormat := sh.fanout && viaRouter && nRemotes > 1
		cr := &clientReq{Method: sh.method, Path: sh.path(g), Header: http.Header{}}
		params := url.Values{}
		if sh.params != nil {
			params = sh.params(g)
		}
		nPlaces := 1 + w.Choose("extra-tokens", 3)
		used := map[string]bool{}
		form := url.Values{}
		for k := 0; k < nPlaces; k++ {
			np := len(c19placements)
			if sh.method == "DELETE" {
				np-- // no form body on DELETE: cookie is reachable through index shift below
			}
			pl := c19placements[w.Choose("placement", np)]
			if sh.method == "DELETE" && pl == "form" {
				pl = "cookie"
			}
			if (pl == "cookie" && !cookiesOK) || (pl == "form" && !formsOK) {
				pl = "query"
			}
			if pl == "oauth2" || pl == "basic" || pl == "bearer" {
				if used["authorization"] {
					continue
				}
				used["authorization"] = true
			}
			if used[pl] {
				continue
			}
			used[pl] = true
			var t *c19tok
			if len(p.tokens) > 0 && w.Chance("same-token-again", 200) {
				t = p.tokens[0]
			} else {
				t = genC19Token(w, rnd, owners, tt, ntok, noLegacyFormat, fortyOK)
				ntok++
			}
			p.tokens = append(p.tokens, t)
			p.places = append(p.places, pl)
			switch pl {
			case "bearer":
				cr.Header.Set("Authorization", "Bearer "+t.text)
			case "oauth2":
				cr.Header.Set("Authorization", "OAuth2 "+t.text)
			case "basic":
				cr.Header.Set("Authorization", "Basic "+base64.StdEncoding.EncodeToString([]byte("someuser:"+t.text)))
			case "query":
				params2 := url.Values{"api_token": {t.text}}
				cr.Query = params2.Encode()
			case "form":
				form.Set("api_token", t.text)
			case "cookie":
				cr.Header.Set("Cookie", "arvados_api_token="+base64.URLEncoding.EncodeToString([]byte(t.text)))
			}
		}
		// where do the API parameters go: query string, or a form body (POST with _method for reads)
		inForm := used["form"] || (sh.method != "DELETE" && w.Chance("params-in-form", 300))
		if sh.write && sh.method != "DELETE" {
			inForm = true
		}
		if inForm {
			for k, v := range params {
				form[k] = v
			}
			if sh.method == "GET" {
				cr.Method = "POST"
				form.Set("_method", "GET")
			}
			cr.ContentType = "application/x-www-form-urlencoded"
			cr.Body = form.Encode()
		} else if len(params) > 0 {
			if cr.Query != "" {
				cr.Query += "&"
			}
			cr.Query += params.Encode()
		}
		p.req = cr
		plans = append(plans, p)
	}

	// ---- nodes ---------------------------------------------------------------------------
	var cur *c19plan
	path := func() string {
		if cfg.legacy {
			return "legacy14"
		}
		return "default"
	}
	forwarded := 0
	handler := func(r *vsim.NetRequest) *vsim.NetReply {
		cl := clusterOfHost(r.Host)
		w.Logf("wire #%d %s %s%s cluster=%q auth=%q", r.Seq, r.Method, r.Host, r.Path, cl, r.Header.Get("Authorization"))
		rep := &vsim.NetReply{Latency: time.Duration(1+w.Choose("lat-ms", 40)) * time.Millisecond}
		if cl == "" {
			// local Rails
			switch {
			case r.Path == "/arvados/v1/api_client_authorizations/current":
				a := strings.SplitN(r.Header.Get("Authorization"), " ", 2)
				var row *tokenRow
				if len(a) == 2 {
					row = tt.lookup(a[1])
				}
				if row == nil {
					rep = errReply(401, "Not logged in")
				} else {
					rep = jsonReply(200, map[string]any{"kind": "arvados#apiClientAuthorization", "uuid": row.UUID, "api_token": row.Secret, "scopes": []string{"all"}})
					w.Probe("legacy-token-resolved-by-rails")
				}
				rep.Latency = 2 * time.Millisecond // identical concurrent lookups must be interchangeable
				return rep
			case strings.Count(r.Path, "/") >= 4:
				e := errReply(404, "Path not found")
				e.Latency = rep.Latency
				return e
			default:
				l := jsonReply(200, map[string]any{"kind": "arvados#list", "items": []any{}})
				l.Latency = rep.Latency
				return l
			}
		}
		if cl == "?" {
			w.Violation("c19/request-to-unconfigured-host", "%s %s%s", r.Method, r.Host, r.Path)
			return nil
		}
		// ---- wire monitor: this request has left the home cluster --------------------------
		forwarded++
		w.Probe("forwarded-" + cur.shape)
		route := "router"
		if _, ok := r.Header["X-Forwarded-For"]; ok {
			route = "legacy-proxy"
		}
		for _, h := range wireHaystacks(r) {
			for i, t := range cur.tokens {
				if t.secret == "" || !strings.Contains(h[1], t.secret) {
					continue
				}
				if t.kind == "legacy-known" && t.owner == cl {
					continue // a legacy token that belongs to the remote itself may go there as it is
				}
				sig := route + ":" + h[0]
				if t.kind == "v2-40" && sentAsCredential(r, t.text) {
					// forwarded on purpose, unchanged: the 40-character secret was taken for a salt
					sig = "40char-secret-treated-as-salted"
				}
				if fedIgnored(sig) {
					w.Probe("ignored-" + sig)
					continue
				}
				w.ViolationSig("c19/unsalted-secret-on-the-wire", sig,
					"request %q (%s, config=%s) carried token kind=%s in %s; its unsalted secret was sent to cluster %s in %s of the forwarded %s %s (route=%s). incoming tokens: %s",
					cur.shape, cur.req.Method, path(), t.kind, cur.places[i], cl, h[0], r.Method, r.Path, route, describeTokens(cur))
				return nil
			}
		}
		// forwarded credentials must be the reference salting of an incoming token
		if len(cur.tokens) > 0 {
			allowed := map[string]bool{}
			for _, t := range cur.tokens {
				allowed[refSalt(t.text, cl, tt)] = true
			}
			auths := r.Header["Authorization"]
			var sent []string
			for _, a := range auths {
				p := strings.SplitN(a, " ", 2)
				if len(p) == 2 && (p[0] == "Bearer" || p[0] == "OAuth2") {
					sent = append(sent, p[1])
				} else {
					sent = append(sent, a)
				}
			}
			for _, src := range []string{r.Query, string(r.Body)} {
				if v, err := url.ParseQuery(src); err == nil {
					for _, rt := range v["reader_tokens"] {
						var l []string
						if json.Unmarshal([]byte(rt), &l) == nil {
							sent = append(sent, l...)
						}
					}
				}
			}
			if len(sent) == 0 {
				w.Probe("forwarded-without-credentials")
			}
			for _, s := range sent {
				if !allowed[s] {
					kind := "?"
					for _, t := range cur.tokens {
						if p := strings.Split(t.text, "/"); s == t.text || (len(p) >= 3 && p[0] == "v2" && strings.Contains(s, p[1])) {
							kind = t.kind
						}
					}
					sig := route + ":" + kind
					if kind == "v2-40" {
						sig = "40char-secret-treated-as-salted"
					}
					if fedIgnored(sig) {
						w.Probe("ignored-" + sig)
						continue
					}
					w.ViolationSig("c19/forwarded-token-is-not-the-reference-salt", sig,
						"request %q (config=%s): cluster %s was sent credential %q, which is not v2/<uuid>/HMAC-SHA1(secret, %q) of any incoming token nor an unchanged salted/foreign token. incoming tokens: %s",
						cur.shape, path(), cl, s, cl, describeTokens(cur))
					return nil
				}
				w.Probe("forwarded-credential-checked")
			}
		}
		switch w.Choose("remote-answer", 4) {
		case 0:
			body := map[string]any{"uuid": strings.TrimPrefix(r.Path[strings.LastIndex(r.Path, "/"):], "/"), "kind": "arvados#object", "items": []any{}}
			if strings.Contains(r.Path, "/collections/") {
				rep = errReply(404, "Path not found")
			} else {
				j := jsonReply(200, body)
				rep.Status, rep.Body = j.Status, j.Body
			}
		case 1:
			e := errReply(404, "Path not found")
			rep.Status, rep.Body = e.Status, e.Body
		case 2:
			e := errReply(500, "simulated")
			rep.Status, rep.Body = e.Status, e.Body
			w.Fault("remote-5xx")
		default:
			e := errReply(401, "Not logged in")
			rep.Status, rep.Body = e.Status, e.Body
		}
		return rep
	}
	sys := newFedSys(w, cfg, handler)
	defer sys.close()

	done := 0
	for i, p := range plans {
		cur = p
		w.Logf("request %d shape=%s config=%s %s %s places=%v kinds=%s", i, p.shape, path(), p.req.Method, p.req.Path, p.places, describeTokens(p))
		var code int
		fin := false
		w.Spawn(fmt.Sprintf("client%d", i), func() {
			rec := sys.serve(p.req)
			code = rec.Code
			fin = true
			w.Logf("response %d", code)
		})
		w.Run(nil)
		if w.Failed() || w.Truncated() {
			return
		}
		if !fin {
			w.Violation("c19/request-never-returned", "%s", strings.Join(w.Blocked(), "; "))
			return
		}
		done++
		for _, t := range p.tokens {
			w.Probe("token-" + t.kind)
		}
		for _, pl := range p.places {
			w.Probe("placement-" + pl)
		}
	}
	w.SetEndState(fmt.Sprintf("%s|%d|%d", path(), done, forwarded))
}

// sentAsCredential: does the forwarded request present tok itself as its credential
// (Authorization header or reader_tokens parameter)?
func sentAsCredential(r *vsim.NetRequest, tok string) bool {
	for _, a := range r.Header["Authorization"] {
		if strings.HasSuffix(a, " "+tok) {
			return true
		}
	}
	for _, src := range []string{r.Query, string(r.Body)} {
		if v, err := url.ParseQuery(src); err == nil {
			for _, rt := range v["reader_tokens"] {
				var l []string
				if json.Unmarshal([]byte(rt), &l) == nil {
					for _, x := range l {
						if x == tok {
							return true
						}
					}
				}
			}
		}
	}
	return false
}

func describeTokens(p *c19plan) string {
	var s []string
	for i, t := range p.tokens {
		s = append(s, fmt.Sprintf("%s@%s(owner %s)=%q", t.kind, p.places[i], t.owner, t.text))
	}
	return strings.Join(s, ", ")
}
