//go:build go1.26

package arvados

import (
	"crypto/md5"
	"errors"
	"fmt"
	"io"
	"os"
	"strings"
	"sync"

	"verif.local/vsim"
)

// simKeep is the Keep model behind the collection filesystem's keepClient seam.
// Every call is a parked point; the decision (when, success or failure) is taken on the
// root goroutine at the instant the call is granted.
type simKeep struct {
	w      *vsim.World
	mu     sync.Mutex
	blocks map[string][]byte // hash -> content
	issued map[string][]byte // every locator returned by a successful PutB -> bytes written
	orig   map[string]bool   // locators of the initial manifest
	nput   int
	nfailed int
	// failure plan
	failKth    int  // fail the k-th PutB (1-based), 0 = off
	failRate   int  // permille
	failBG     bool // only writes issued outside a save
	failSave   bool // only writes issued during a save
	faultsOff  bool
	inSave     func() bool
	putSeq     int
	readFail   int // permille of ReadAt failures (C13 only)
}

func newSimKeep(w *vsim.World) *simKeep {
	return &simKeep{w: w, blocks: map[string][]byte{}, issued: map[string][]byte{}, orig: map[string]bool{}}
}

var errSimKeep = errors.New("simulated keep write failure")

func (k *simKeep) store(p []byte) string {
	h := fmt.Sprintf("%x", md5.Sum(p))
	k.blocks[h] = append([]byte(nil), p...)
	return h
}

func (k *simKeep) PutB(p []byte) (string, int, error) {
	during := k.inSave != nil && k.inSave()
	h8 := fmt.Sprintf("%x", md5.Sum(p))[:8]
	type res struct {
		loc string
		err error
	}
	r := k.w.Park("keep-put", h8, nil, func() any {
		k.nput++
		fail := false
		if !k.faultsOff {
			eligible := (!k.failBG && !k.failSave) || (k.failBG && !during) || (k.failSave && during)
			if eligible {
				if k.failKth > 0 && k.nput == k.failKth {
					fail = true
				}
				if k.failRate > 0 && k.w.Chance("keep-put-fail", k.failRate) {
					fail = true
				}
			}
		}
		if fail {
			k.nfailed++
			k.w.Fault("keep-put-fail")
			if during {
				k.w.Probe("put-failed-during-save")
			} else {
				k.w.Probe("put-failed-in-background")
			}
			return res{"", errSimKeep}
		}
		h := k.store(p)
		k.putSeq++
		loc := fmt.Sprintf("%s+%d+A%040x@5f5e1000", h, len(p), k.putSeq)
		k.issued[loc] = append([]byte(nil), p...)
		return res{loc, nil}
	}).(res)
	if r.err != nil {
		return "", 0, r.err
	}
	return r.loc, 1, nil
}

func (k *simKeep) ReadAt(locator string, p []byte, off int) (int, error) {
	type res struct {
		n   int
		err error
	}
	r := k.w.Park("keep-read", locator[:8], nil, func() any {
		b, ok := k.blocks[locator[:32]]
		if !ok {
			return res{0, os.ErrNotExist}
		}
		if off > len(b) {
			return res{0, io.ErrUnexpectedEOF}
		}
		return res{copy(p, b[off:]), nil}
	}).(res)
	return r.n, r.err
}

func (k *simKeep) LocalLocator(l string) (string, error) { return l, nil }

// blockOf is the oracle's view: bytes of a locator (by hash), nil if unknown.
func (k *simKeep) blockOf(locator string) ([]byte, bool) {
	if len(locator) < 32 {
		return nil, false
	}
	if locator[:32] == "d41d8cd98f00b204e9800998ecf8427e" {
		return []byte{}, true // the empty block exists by definition
	}
	b, ok := k.blocks[locator[:32]]
	return b, ok
}

// simAPI records collection updates sent by Sync().
type simAPI struct {
	w         *vsim.World
	manifests []string
	fail      bool
}

func (a *simAPI) RequestAndDecode(dst interface{}, method, path string, body io.Reader, params interface{}) error {
	if method == "PUT" && strings.HasPrefix(path, "arvados/v1/collections/") {
		m := params.(map[string]interface{})["collection"].(map[string]string)["manifest_text"]
		a.manifests = append(a.manifests, m)
		return nil
	}
	return fmt.Errorf("simAPI: unexpected %s %s", method, path)
}
