//go:build go1.26

package arvados

import (
	"bytes"
	"fmt"
	"io"
	"os"
	"sort"
	"strings"

	"verif.local/vsim"
)

// ---- the reference model: a plain in-memory filesystem ---------------------------------

type mnode struct {
	dir  bool
	data []byte
	kids map[string]*mnode
}

func newDir() *mnode { return &mnode{dir: true, kids: map[string]*mnode{}} }

type mfs struct{ root *mnode }

// walk returns the node at path ("" = root); ok=false if missing or a component is a file.
func (m *mfs) walk(p string) (*mnode, bool) {
	n := m.root
	if p == "" {
		return n, true
	}
	for _, c := range strings.Split(p, "/") {
		if !n.dir {
			return nil, false
		}
		k := n.kids[c]
		if k == nil {
			return nil, false
		}
		n = k
	}
	return n, true
}

func splitPath(p string) (dir, name string) {
	if i := strings.LastIndex(p, "/"); i >= 0 {
		return p[:i], p[i+1:]
	}
	return "", p
}

func (m *mfs) isAncestorOrSelf(a, b *mnode) bool { // is a an ancestor of (or equal to) b?
	if a == b {
		return true
	}
	if !a.dir {
		return false
	}
	for _, k := range a.kids {
		if m.isAncestorOrSelf(k, b) {
			return true
		}
	}
	return false
}

func (m *mfs) flatten(n *mnode, prefix string, files map[string][]byte, dirs map[string]bool) {
	dirs[prefix] = true
	for name, k := range n.kids {
		p := name
		if prefix != "" {
			p = prefix + "/" + name
		}
		if k.dir {
			m.flatten(k, p, files, dirs)
		} else {
			files[p] = k.data
		}
	}
}

func (m *mfs) totalSize(n *mnode) int64 {
	if !n.dir {
		return int64(len(n.data))
	}
	var s int64
	for _, k := range n.kids {
		s += m.totalSize(k)
	}
	return s
}

// ---- operations ----------------------------------------------------------------------

const (
	opOpen = iota
	opWrite
	opRead
	opSeek
	opTrunc
	opSize
	opClose
	opMkdir
	opRename
	opRemove
	opRemoveAll
	opStat
	opReaddir
	opFlush
	opSync
	opMarshal
	opPwrite
	opCount
)

var opNames = []string{"open", "write", "read", "seek", "trunc", "size", "close", "mkdir", "rename", "remove", "removeall", "stat", "readdir", "flush", "sync", "marshal", "pwrite"}

type fsop struct {
	kind  int
	p1    string
	p2    string
	slot  int
	flags int
	n     int
	off   int
	short bool
	idx   int
}

func (o fsop) String() string {
	return fmt.Sprintf("%s p1=%q p2=%q slot=%d flags=%#x n=%d off=%d short=%v", opNames[o.kind], o.p1, o.p2, o.slot, o.flags, o.n, o.off, o.short)
}

type handle struct {
	f                   File
	node                *mnode
	off                 int64
	readable, writable  bool
	app                 bool
}

type namespace struct {
	dirs  []string // candidate directory paths
	files []string // candidate file paths
	// further directory paths used only as operands of directory renames: places below directories
	// that exist only after an earlier move (d1/s/t after d0/s went to d1/s), so that "move a
	// directory into its own subtree" is also tried through directories that have been moved
	dirTargets []string
}

func mkNamespace(odd bool, prefix string) namespace {
	fn := []string{"a", "b", "c"}
	dn := []string{"d0", "d1"}
	if odd {
		fn = []string{"a", "sp ace", "co:lon", "back\\slash", "\\056", "t\tab", "\x01\xff", "..."}
		dn = []string{"d0", "d 1"}
	}
	for i := range fn {
		fn[i] = prefix + fn[i]
	}
	ns := namespace{}
	ns.dirs = []string{dn[0], dn[1], dn[0] + "/s", dn[1] + "/s", dn[0] + "/s/t"}
	ns.dirTargets = append(append([]string{}, ns.dirs...), dn[1]+"/s/t", dn[0]+"/s/x", dn[1]+"/s/x", dn[1]+"/s/t/x", dn[0]+"/s/t/x", dn[0]+"/t", dn[1]+"/t")
	for _, d := range append([]string{""}, ns.dirs...) {
		for _, f := range fn {
			if d == "" {
				ns.files = append(ns.files, f)
			} else {
				ns.files = append(ns.files, d+"/"+f)
			}
		}
	}
	return ns
}

// hotFileProfile (set per run by a scenario) concentrates the workload on ONE file opened
// through several handles: sequential reads through one handle while others overwrite
// the middle of already flushed data is what cached segment pointers must survive.
var hotFileProfile bool

// genOps draws a workload on the root goroutine. 0 is always the mildest choice.
func genOps(w *vsim.World, label string, ns namespace, mean, blk int, withSaves bool, shared ...bool) []fsop {
	sharedDirs := len(shared) > 0 && shared[0]
	var ops []fsop
	anyPath := append(append([]string{}, ns.files...), ns.dirs...)
	for len(ops) < 400 && w.Choose(label+"-more", mean+1) != 0 {
		o := fsop{idx: len(ops)}
		// weighted kinds: writes/reads/opens dominate
		kinds := []int{opWrite, opOpen, opRead, opWrite, opSeek, opOpen, opTrunc, opSize, opClose, opMkdir, opRename, opRemove, opRemoveAll, opStat, opReaddir, opRead, opWrite, opPwrite, opRead, opPwrite}
		if withSaves {
			kinds = append(kinds, opFlush, opMarshal, opSync, opFlush)
		}
		if hotFileProfile && !sharedDirs {
			kinds = []int{opRead, opPwrite, opRead, opWrite, opPwrite, opRead, opOpen, opSeek, opTrunc, opFlush, opRead, opPwrite, opSize, opFlush, opOpen}
			if withSaves {
				kinds = append(kinds, opMarshal)
			}
		}
		if sharedDirs {
			// workers of C13 share the directories: only file-level operations
			kinds = []int{opWrite, opOpen, opRead, opWrite, opSeek, opOpen, opTrunc, opSize, opClose, opRename, opRemove, opStat, opReaddir, opRead, opWrite, opWrite, opPwrite, opRead}
		}
		o.kind = kinds[w.Choose(label+"-kind", len(kinds))]
		o.slot = w.Choose(label+"-slot", 4)
		switch o.kind {
		case opOpen:
			o.p1 = ns.files[w.Choose(label+"-path", len(ns.files))]
			if hotFileProfile && !sharedDirs {
				o.p1 = ns.files[0]
				o.flags = os.O_RDWR | os.O_CREATE
				break
			}
			if w.Choose(label+"-hot-file", 2) == 1 {
				// half of the opens go to two "hot" files, so that several handles with
				// independent offsets on ONE file (cached segment pointers!) are common
				o.p1 = ns.files[w.Choose(label+"-hot", 2)]
			}
			acc := []int{os.O_RDWR, os.O_RDONLY, os.O_WRONLY}[w.Choose(label+"-acc", 3)]
			o.flags = acc
			if w.Choose(label+"-create", 4) != 3 {
				o.flags |= os.O_CREATE
				if w.Choose(label+"-excl", 4) == 3 {
					o.flags |= os.O_EXCL
				}
			}
			if w.Choose(label+"-trunc", 4) == 3 {
				o.flags |= os.O_TRUNC
			}
			if w.Choose(label+"-append", 4) == 3 {
				o.flags |= os.O_APPEND
			}
			if !sharedDirs && w.Choose(label+"-opendir", 12) == 11 {
				o.p1 = ns.dirs[w.Choose(label+"-dpath", len(ns.dirs))]
				o.flags = os.O_RDONLY
			}
		case opWrite:
			o.n = w.Choose(label+"-wlen", 3*blk+2)
		case opPwrite: // overwrite somewhere inside the existing data (seek + write)
			o.n = 1 + w.Choose(label+"-wlen", 2*blk+1)
			o.off = w.Choose(label+"-poff", 1<<16)
		case opRead:
			o.n = 1 + w.Choose(label+"-rlen", 3*blk+2)
		case opSeek:
			o.flags = w.Choose(label+"-whence", 3)
			o.off = w.Choose(label+"-soff", 4*blk+2) - w.Choose(label+"-sneg", 2)*(2*blk)
		case opTrunc:
			o.n = w.Choose(label+"-tlen", 4*blk+2)
		case opMkdir:
			o.p1 = ns.dirs[w.Choose(label+"-dpath", len(ns.dirs))]
		case opRename:
			if sharedDirs {
				o.p1 = ns.files[w.Choose(label+"-path", len(ns.files))]
				o.p2 = ns.files[w.Choose(label+"-path2", len(ns.files))]
			} else if w.Choose(label+"-rdir", 4) == 3 {
				o.p1 = ns.dirTargets[w.Choose(label+"-dpath", len(ns.dirTargets))]
				o.p2 = ns.dirTargets[w.Choose(label+"-dpath2", len(ns.dirTargets))]
				if w.Choose(label+"-into-moved", 3) == 2 {
					// a two-step history: move a directory below another top-level directory, then try to
					// move that directory into the subtree that has just arrived (must fail: into itself)
					x := w.Choose(label+"-moved-from", 2)
					o.p1, o.p2 = ns.dirs[2+x], ns.dirs[1-x]+"/m" // d0/s -> d1/m, or d1/s -> d0/m
					ops = append(ops, o)
					o = fsop{idx: len(ops), kind: opRename, p1: ns.dirs[1-x], p2: ns.dirs[1-x] + "/m/x"}
				}
			} else {
				o.p1 = ns.files[w.Choose(label+"-path", len(ns.files))]
				o.p2 = anyPath[w.Choose(label+"-path2", len(anyPath))]
			}
		case opRemove, opRemoveAll, opStat:
			o.p1 = anyPath[w.Choose(label+"-apath", len(anyPath))]
			if sharedDirs {
				o.p1 = ns.files[w.Choose(label+"-path", len(ns.files))]
			}
		case opReaddir:
			o.p1 = append([]string{""}, ns.dirs...)[w.Choose(label+"-rdpath", len(ns.dirs)+1)]
		case opFlush:
			o.p1 = append([]string{""}, ns.dirs...)[w.Choose(label+"-fpath", len(ns.dirs)+1)]
			if hotFileProfile && !sharedDirs {
				o.p1 = ""
			}
			o.short = w.Choose(label+"-short", 2) == 1
		}
		ops = append(ops, o)
	}
	return ops
}

// executor applies operations to the real filesystem and the model in lockstep and
// compares every observable result.
type executor struct {
	w       *vsim.World
	fs      CollectionFileSystem
	m       *mfs
	h       [4]*handle
	tag     string
	inSave  bool
	onSave  func(txt string, err error, how string) // C09 hook
	ownOnly func(name string) bool                 // C13: restrict listings to own names
	hist    func(ev histEvent)                     // C13: record per-file history
	blk     int
	// C13: per-path version history for the save-window oracle, and inode identities
	vers    map[string][]pathVersion
	inodes  map[*mnode]inode
}

type pathVersion struct {
	call, ret int64
	data      []byte
	absent    bool
}

func (x *executor) stamp() int64 {
	if x.hist == nil {
		return 0
	}
	return x.w.Stamp()
}

func (x *executor) pathOf(n *mnode) string {
	var find func(d *mnode, prefix string) string
	find = func(d *mnode, prefix string) string {
		for name, k := range d.kids {
			p := name
			if prefix != "" {
				p = prefix + "/" + name
			}
			if k == n {
				return p
			}
			if k.dir {
				if r := find(k, p); r != "" {
					return r
				}
			}
		}
		return ""
	}
	return find(x.m.root, "")
}

func (x *executor) version(path string, call, ret int64, node *mnode) {
	if x.vers == nil || path == "" {
		return
	}
	v := pathVersion{call: call, ret: ret, absent: node == nil}
	if node != nil {
		v.data = append([]byte(nil), node.data...)
	}
	x.vers[path] = append(x.vers[path], v)
}

type histEvent struct {
	node        *mnode
	kind        string // write | trunc
	off         int64
	data        []byte
	size        int64
	call, ret   int64
}

func (x *executor) bad(clause, f string, a ...any) {
	x.w.Violation(clause, x.tag+": "+f, a...)
}

func wdata(idx, n int) []byte {
	b := make([]byte, n)
	for i := range b {
		b[i] = byte((idx*37+i*11)%250 + 1)
	}
	return b
}

func (x *executor) checkSegments(f File) {
	fh, ok := f.(*filehandle)
	if !ok {
		return
	}
	fn, ok := fh.inode.(*filenode)
	if !ok {
		return
	}
	fn.RLock()
	var sum int64
	for _, s := range fn.segments {
		sum += int64(s.Len())
	}
	size := fn.fileinfo.size
	fn.RUnlock()
	if sum != size {
		x.bad("fs/size-vs-segments", "file size %d != sum of segment lengths %d", size, sum)
	}
}

// probeSplit counts the situations behind cached-pointer bugs: a write that starts strictly
// inside a stored (already flushed) segment, and whether another open handle on the same
// file sits at or after that point.
func (x *executor) probeSplit(h *handle, n int) {
	fh, ok := h.f.(*filehandle)
	if !ok || n == 0 || !h.writable {
		return
	}
	fn, ok := fh.inode.(*filenode)
	if !ok {
		return
	}
	off := h.off
	if h.app {
		return
	}
	fn.RLock()
	var pos int64
	split := false
	for _, seg := range fn.segments {
		l := int64(seg.Len())
		if _, stored := seg.(storedSegment); stored && off > pos && off < pos+l {
			split = true
		}
		pos += l
	}
	fn.RUnlock()
	if !split {
		return
	}
	x.w.Probe("write-splits-stored-segment")
	for _, o := range x.h {
		if o != nil && o != h && o.node == h.node && o.readable && o.off >= off && o.off < int64(len(h.node.data)) {
			x.w.Probe("write-splits-stored-segment-under-another-handle")
		}
	}
}

func (x *executor) run(ops []fsop) {
	for _, o := range ops {
		if x.w.Failed() {
			return
		}
		vsim.Yield("op", x.tag)
		x.w.Logf("op %d %s", o.idx, o)
		x.apply(o)
	}
}

func (x *executor) apply(o fsop) {
	m := x.m
	switch o.kind {
	case opOpen:
		dir, name := splitPath(o.p1)
		parent, pok := m.walk(dir)
		var node *mnode
		if pok && parent.dir {
			node = parent.kids[name]
		}
		readable := o.flags&(os.O_WRONLY|os.O_RDWR) != os.O_WRONLY
		writable := o.flags&(os.O_WRONLY|os.O_RDWR) != 0
		expectErr := false
		switch {
		case !pok || !parent.dir:
			expectErr = true
		case node == nil:
			expectErr = o.flags&os.O_CREATE == 0
		case o.flags&os.O_CREATE != 0 && o.flags&os.O_EXCL != 0:
			expectErr = true
		case o.flags&os.O_TRUNC != 0 && (!writable || node.dir):
			expectErr = true
		}
		if node != nil && node.dir && writable {
			return // opening a directory for writing: not specified by the property
		}
		if x.h[o.slot] != nil {
			x.h[o.slot].f.Close()
			x.h[o.slot] = nil
		}
		c0 := x.stamp()
		f, err := x.fs.OpenFile(o.p1, o.flags, 0644)
		r0 := x.stamp()
		if (err != nil) != expectErr {
			x.bad("fs/open-error-class", "OpenFile(%q,%#x): err=%v, model expects error=%v", o.p1, o.flags, err, expectErr)
			return
		}
		if err != nil {
			x.w.Probe("open-error")
			return
		}
		if node == nil {
			node = &mnode{}
			parent.kids[name] = node
			x.version(o.p1, c0, r0, node)
		} else if o.flags&os.O_TRUNC != 0 {
			node.data = nil
			if x.hist != nil {
				x.hist(histEvent{node: node, kind: "trunc", size: 0, call: c0, ret: r0})
			}
			x.version(o.p1, c0, r0, node)
		}
		if x.inodes != nil {
			if fh, ok := f.(*filehandle); ok {
				x.inodes[node] = fh.inode
			}
		}
		x.h[o.slot] = &handle{f: f, node: node, readable: readable, writable: writable, app: o.flags&os.O_APPEND != 0}
	case opWrite:
		h := x.h[o.slot]
		if h == nil || h.node.dir {
			return
		}
		if o.n == 0 && h.writable && !h.app && h.off > int64(len(h.node.data)) {
			return // zero-length write beyond EOF (extend or not): not specified by the property
		}
		data := wdata(o.idx, o.n)
		x.probeSplit(h, o.n)
		c0 := x.stamp()
		n, err := h.f.Write(data)
		r0 := x.stamp()
		if !h.writable {
			if err == nil {
				x.bad("fs/write-through-readonly-handle", "Write on O_RDONLY handle succeeded (n=%d)", n)
			}
			return
		}
		if err != nil || n != len(data) {
			x.bad("fs/write-failed", "Write(%d bytes) = %d, %v", len(data), n, err)
			return
		}
		if h.app {
			h.off = int64(len(h.node.data))
		}
		if end := h.off + int64(len(data)); end > int64(len(h.node.data)) && len(data) > 0 {
			h.node.data = append(h.node.data, make([]byte, end-int64(len(h.node.data)))...)
		}
		copy(h.node.data[h.off:], data)
		if x.hist != nil {
			x.hist(histEvent{node: h.node, kind: "write", off: h.off, data: data, call: c0, ret: r0})
			x.version(x.pathOf(h.node), c0, r0, h.node)
		}
		h.off += int64(len(data))
		if len(data) > x.blk {
			x.w.Probe("write-spans-blocks")
		}
		x.checkSegments(h.f)
	case opRead:
		h := x.h[o.slot]
		if h == nil || h.node.dir {
			return
		}
		buf := make([]byte, o.n)
		got := 0
		var err error
		for got < o.n && err == nil {
			var n int
			n, err = h.f.Read(buf[got:])
			got += n
			if n == 0 && err == nil {
				x.bad("fs/read-no-progress", "Read returned 0, nil")
				return
			}
		}
		if !h.readable {
			if err == nil || got > 0 {
				x.bad("fs/read-through-writeonly-handle", "Read on O_WRONLY handle returned %d bytes, err=%v", got, err)
			}
			return
		}
		var want []byte
		if h.off < int64(len(h.node.data)) {
			end := h.off + int64(o.n)
			if end > int64(len(h.node.data)) {
				end = int64(len(h.node.data))
			}
			want = h.node.data[h.off:end]
		}
		if !bytes.Equal(buf[:got], want) {
			x.bad("fs/read-content", "read at %d of %d bytes returned %q, model has %q", h.off, o.n, buf[:got], want)
			return
		}
		if got < o.n && err != io.EOF {
			x.bad("fs/read-short-without-eof", "read %d of %d bytes, err=%v", got, o.n, err)
			return
		}
		if got == o.n && err != nil && err != io.EOF {
			x.bad("fs/read-error", "full read returned err=%v", err)
			return
		}
		h.off += int64(got)
	case opPwrite:
		h := x.h[o.slot]
		if h == nil || h.node.dir || !h.writable || h.app {
			return
		}
		x.apply(fsop{kind: opSeek, slot: o.slot, flags: io.SeekStart, off: o.off % (len(h.node.data) + 1), idx: o.idx})
		x.apply(fsop{kind: opWrite, slot: o.slot, n: o.n, idx: o.idx})
	case opSeek:
		h := x.h[o.slot]
		if h == nil || h.node.dir {
			return
		}
		var np int64
		switch o.flags {
		case io.SeekStart:
			np = int64(o.off)
		case io.SeekCurrent:
			np = h.off + int64(o.off)
		case io.SeekEnd:
			np = int64(len(h.node.data)) + int64(o.off)
		}
		pos, err := h.f.Seek(int64(o.off), o.flags)
		if np < 0 {
			if err == nil {
				x.bad("fs/seek-negative", "Seek to %d succeeded", np)
			}
			return
		}
		if err != nil || pos != np {
			x.bad("fs/seek", "Seek(%d,%d) = %d, %v; model %d", o.off, o.flags, pos, err, np)
			return
		}
		h.off = np
	case opTrunc:
		h := x.h[o.slot]
		if h == nil || h.node.dir || !h.writable {
			return
		}
		c0 := x.stamp()
		err := h.f.Truncate(int64(o.n))
		r0 := x.stamp()
		if err != nil {
			x.bad("fs/truncate-failed", "Truncate(%d): %v", o.n, err)
			return
		}
		if o.n <= len(h.node.data) {
			h.node.data = h.node.data[:o.n:o.n]
		} else {
			h.node.data = append(h.node.data, make([]byte, o.n-len(h.node.data))...)
		}
		if x.hist != nil {
			x.hist(histEvent{node: h.node, kind: "trunc", size: int64(o.n), call: c0, ret: r0})
			x.version(x.pathOf(h.node), c0, r0, h.node)
		}
		x.checkSegments(h.f)
	case opSize:
		h := x.h[o.slot]
		if h == nil || h.node.dir {
			return
		}
		fi, err := h.f.Stat()
		if s := h.f.Size(); s != int64(len(h.node.data)) || err != nil || fi.Size() != s {
			x.bad("fs/size", "Size()=%d Stat().Size()=%v err=%v, model %d", s, fi, err, len(h.node.data))
		}
	case opClose:
		if h := x.h[o.slot]; h != nil {
			h.f.Close()
			x.h[o.slot] = nil
		}
	case opMkdir:
		dir, name := splitPath(o.p1)
		parent, pok := m.walk(dir)
		expectErr := !pok || !parent.dir || parent.kids[name] != nil
		err := x.fs.Mkdir(o.p1, 0755)
		if (err != nil) != expectErr {
			x.bad("fs/mkdir-error-class", "Mkdir(%q): err=%v, model expects error=%v", o.p1, err, expectErr)
			return
		}
		if err == nil {
			parent.kids[name] = newDir()
		}
	case opRename:
		od, on := splitPath(o.p1)
		nd, nn := splitPath(o.p2)
		op, opok := m.walk(od)
		np, npok := m.walk(nd)
		var src, dst *mnode
		if opok && op.dir {
			src = op.kids[on]
		}
		if npok && np.dir {
			dst = np.kids[nn]
		}
		expectErr := false
		switch {
		case !opok || !op.dir || src == nil:
			expectErr = true
		case !npok || !np.dir:
			expectErr = true
		case src.dir && m.isAncestorOrSelf(src, np):
			expectErr = true // directory moved into itself
		case dst != nil && dst.dir && !src.dir:
			expectErr = true // file renamed onto a directory
		case dst != nil && (src.dir || dst.dir):
			return // dir onto existing entry / onto dir: not specified by the property
		}
		if x.ownOnly != nil && dst != nil && src != dst {
			return
		}
		c0 := x.stamp()
		err := x.fs.Rename(o.p1, o.p2)
		r0 := x.stamp()
		if (err != nil) != expectErr {
			x.bad("fs/rename-error-class", "Rename(%q,%q): err=%v, model expects error=%v", o.p1, o.p2, err, expectErr)
			return
		}
		if err == nil {
			if src == dst {
				x.w.Probe("rename-onto-itself")
			} else {
				delete(op.kids, on)
				np.kids[nn] = src
				x.version(o.p1, c0, r0, nil)
				x.version(o.p2, c0, r0, src)
				if dst != nil {
					x.w.Probe("rename-replaces-file")
				}
			}
		}
	case opRemove, opRemoveAll:
		dir, name := splitPath(o.p1)
		parent, pok := m.walk(dir)
		var node *mnode
		if pok && parent.dir {
			node = parent.kids[name]
		}
		if x.ownOnly != nil && node != nil && node.dir {
			return
		}
		var err error
		expectErr := false
		if o.kind == opRemove {
			expectErr = node == nil || (node.dir && len(node.kids) > 0)
			c0 := x.stamp()
			err = x.fs.Remove(o.p1)
			if err == nil && node != nil && !node.dir {
				x.version(o.p1, c0, x.stamp(), nil)
			}
		} else {
			// RemoveAll of a missing path is nil, like os.RemoveAll; a path THROUGH a file is
			// not specified by the property: the result is not judged.
			if pathThroughFile(m, dir) {
				x.fs.RemoveAll(o.p1)
				return
			}
			err = x.fs.RemoveAll(o.p1)
		}
		if (err != nil) != expectErr {
			x.bad("fs/remove-error-class", "%s(%q): err=%v, model expects error=%v", opNames[o.kind], o.p1, err, expectErr)
			return
		}
		if err == nil && node != nil {
			delete(parent.kids, name)
		}
	case opStat:
		node, ok := m.walk(o.p1)
		fi, err := x.fs.Stat(o.p1)
		if (err != nil) != !ok {
			x.bad("fs/stat-error-class", "Stat(%q): err=%v, model exists=%v", o.p1, err, ok)
			return
		}
		if err == nil {
			if fi.IsDir() != node.dir || (!node.dir && fi.Size() != int64(len(node.data))) {
				x.bad("fs/stat", "Stat(%q): dir=%v size=%d, model dir=%v size=%d", o.p1, fi.IsDir(), fi.Size(), node.dir, len(node.data))
			}
		}
	case opReaddir:
		node, ok := m.walk(o.p1)
		p := o.p1
		if p == "" {
			p = "."
		}
		f, err := x.fs.Open(p)
		if (err != nil) != !ok {
			x.bad("fs/opendir-error-class", "Open(%q): err=%v, model exists=%v", p, err, ok)
			return
		}
		if err != nil {
			return
		}
		defer f.Close()
		if !node.dir {
			return
		}
		fis, err := f.Readdir(0)
		if err != nil {
			x.bad("fs/readdir", "Readdir(%q): %v", p, err)
			return
		}
		var got, want []string
		for _, fi := range fis {
			if x.ownOnly != nil && !x.ownOnly(fi.Name()) {
				continue
			}
			s := fi.Name()
			if fi.IsDir() {
				s += "/"
			} else {
				s += fmt.Sprintf(":%d", fi.Size())
			}
			got = append(got, s)
		}
		for name, k := range node.kids {
			if x.ownOnly != nil && !x.ownOnly(name) {
				continue
			}
			if k.dir {
				want = append(want, name+"/")
			} else {
				want = append(want, fmt.Sprintf("%s:%d", name, len(k.data)))
			}
		}
		sort.Strings(got)
		sort.Strings(want)
		if strings.Join(got, "|") != strings.Join(want, "|") {
			x.bad("fs/readdir-listing", "Readdir(%q) = %q, model %q", p, got, want)
		}
	case opFlush:
		node, ok := m.walk(o.p1)
		err := x.fs.Flush(o.p1, o.short)
		if !ok || !node.dir {
			if err == nil {
				x.bad("fs/flush-error-class", "Flush(%q) of a missing/non-directory path succeeded", o.p1)
			}
			return
		}
		if err != nil && x.onSave == nil {
			x.bad("fs/flush-failed", "Flush(%q,%v): %v", o.p1, o.short, err)
		}
		x.w.Probe("explicit-flush")
	case opSync:
		x.inSave = true
		err := x.fs.Sync()
		x.inSave = false
		if x.onSave != nil {
			x.onSave("", err, "sync")
		} else if err != nil {
			x.bad("fs/sync-failed", "Sync: %v", err)
		}
	case opMarshal:
		x.inSave = true
		txt, err := x.fs.MarshalManifest(".")
		x.inSave = false
		if x.onSave != nil {
			x.onSave(txt, err, "marshal")
		} else if err != nil {
			x.bad("fs/marshal-failed", "MarshalManifest: %v", err)
		}
	}
}

func pathThroughFile(m *mfs, dir string) bool {
	n := m.root
	if dir == "" {
		return false
	}
	for _, c := range strings.Split(dir, "/") {
		if !n.dir {
			return true
		}
		k := n.kids[c]
		if k == nil {
			return false
		}
		n = k
	}
	return !n.dir
}

var readAllChunk = 257

// readAll reads a whole file of the real filesystem through a fresh handle.
func readAll(fs FileSystem, p string) ([]byte, error) {
	f, err := fs.Open(p)
	if err != nil {
		return nil, err
	}
	defer f.Close()
	var out []byte
	buf := make([]byte, readAllChunk)
	for {
		n, err := f.Read(buf)
		out = append(out, buf[:n]...)
		if err == io.EOF {
			return out, nil
		}
		if err != nil {
			return out, err
		}
		if n == 0 {
			return out, fmt.Errorf("Read returned 0, nil")
		}
	}
}

// walkReal lists the real filesystem: files with content, and all directories.
func walkReal(fs FileSystem, dir string, files map[string][]byte, dirs map[string]bool) error {
	dirs[dir] = true
	p := dir
	if p == "" {
		p = "."
	}
	f, err := fs.Open(p)
	if err != nil {
		return err
	}
	fis, err := f.Readdir(0)
	f.Close()
	if err != nil {
		return err
	}
	sort.Slice(fis, func(i, j int) bool { return fis[i].Name() < fis[j].Name() })
	for _, fi := range fis {
		cp := fi.Name()
		if dir != "" {
			cp = dir + "/" + fi.Name()
		}
		if fi.IsDir() {
			if err := walkReal(fs, cp, files, dirs); err != nil {
				return err
			}
		} else {
			b, err := readAll(fs, cp)
			if err != nil {
				return fmt.Errorf("%s: %v", cp, err)
			}
			files[cp] = b
		}
	}
	return nil
}

func diffTrees(af map[string][]byte, ad map[string]bool, bf map[string][]byte, bd map[string]bool) string {
	var names []string
	for k := range af {
		names = append(names, k)
	}
	for k := range bf {
		if _, ok := af[k]; !ok {
			names = append(names, k)
		}
	}
	sort.Strings(names)
	for _, k := range names {
		a, aok := af[k]
		b, bok := bf[k]
		if aok != bok {
			return fmt.Sprintf("file %q present=%v vs %v", k, aok, bok)
		}
		if !bytes.Equal(a, b) {
			return fmt.Sprintf("file %q content %q vs %q", k, trunc(a), trunc(b))
		}
	}
	var ds []string
	for k := range ad {
		ds = append(ds, k)
	}
	for k := range bd {
		if !ad[k] {
			ds = append(ds, k)
		}
	}
	sort.Strings(ds)
	for _, k := range ds {
		if ad[k] != bd[k] {
			return fmt.Sprintf("directory %q present=%v vs %v", k, ad[k], bd[k])
		}
	}
	return ""
}

func trunc(b []byte) []byte {
	if len(b) > 80 {
		return append(append([]byte{}, b[:80]...), "..."...)
	}
	return b
}
