//go:build go1.26

package arvados

import (
	"bytes"
	"fmt"
	"io"
	"sort"
	"strings"
	"time"

	"github.com/anishathalye/porcupine"
	"verif.local/vsim"
)

// ---- C13: concurrent use of one collection filesystem ---------------------------------

type c13read struct {
	ino       inode
	off       int64
	data      []byte
	eof       bool
	call, ret int64
}

type c13save struct {
	txt       string
	call, ret int64
	how       string
}

type fileIn struct {
	kind string // write | trunc | read
	off  int64
	data []byte
	size int64
	n    int
}
type fileOut struct {
	data []byte
	eof  bool
}

var c13model = porcupine.Model{
	Init: func() interface{} { return "" },
	Step: func(state, input, output interface{}) (bool, interface{}) {
		st := state.(string)
		in := input.(fileIn)
		switch in.kind {
		case "write":
			b := []byte(st)
			if end := in.off + int64(len(in.data)); end > int64(len(b)) && len(in.data) > 0 {
				b = append(b, make([]byte, end-int64(len(b)))...)
			}
			copy(b[in.off:], in.data)
			return true, string(b)
		case "trunc":
			b := []byte(st)
			if in.size <= int64(len(b)) {
				b = b[:in.size]
			} else {
				b = append(b, make([]byte, in.size-int64(len(b)))...)
			}
			return true, string(b)
		default:
			out := output.(fileOut)
			if len(out.data) == 0 {
				return out.eof && in.off >= int64(len(st)), st
			}
			end := in.off + int64(len(out.data))
			return end <= int64(len(st)) && st[in.off:end] == string(out.data), st
		}
	},
	Equal: func(a, b interface{}) bool { return a.(string) == b.(string) },
}

func scenC13(w *vsim.World, spec *vsim.Spec) {
	odd := w.Choose("odd-names", 4) == 3
	nworkers := w.Range("workers", 2, 8)
	if spec.Tier != "thorough" && nworkers > 5 {
		nworkers = 2 + nworkers%4
	}
	blk := []int{1, 2, 3, 4, 5, 8, 16}[w.Choose("blocksize", 7)]
	maxBlockSize = blk
	concurrentWriters = 1 + (3+w.Choose("writers", 4))%4
	k := newSimKeep(w)
	api := &simAPI{w: w}
	fs, err := (&Collection{UUID: "zzzzz-4zz18-000000000000000"}).FileSystem(api, k)
	if err != nil {
		w.Infra("%v", err)
		return
	}
	k.failRate = []int{0, 100, 300}[w.Choose("put-fail-rate", 3)]
	w.HoldKinds(map[string]int{"keep-put": []int{0, 300, 700, 950}[w.Choose("hold-puts", 4)]})
	base := mkNamespace(odd, "")
	for _, d := range base.dirs {
		if err := fs.Mkdir(d, 0755); err != nil {
			w.Infra("mkdir %s: %v", d, err)
			return
		}
	}
	w.Logf("config workers=%d blk=%d writers=%d", nworkers, blk, concurrentWriters)
	mean := 12
	if spec.Tier == "thorough" {
		mean = []int{12, 30, 60}[w.Choose("mean", 3)]
	}
	type hist struct {
		node *mnode
		evs  []histEvent
	}
	var xs []*executor
	hists := make([]map[*mnode]*hist, nworkers)
	for i := 0; i < nworkers; i++ {
		i := i
		prefix := fmt.Sprintf("w%d_", i)
		ns := c13Namespace(odd, prefix)
		m := &mfs{root: newDir()}
		for _, d := range base.dirs {
			dir, name := splitPath(d)
			p, _ := m.walk(dir)
			p.kids[name] = newDir()
		}
		hists[i] = map[*mnode]*hist{}
		x := &executor{w: w, fs: fs, m: m, tag: fmt.Sprintf("w%d", i), blk: blk,
			ownOnly: func(name string) bool { return strings.HasPrefix(name, prefix) },
			vers:    map[string][]pathVersion{}, inodes: map[*mnode]inode{}}
		x.hist = func(ev histEvent) {
			h := hists[i][ev.node]
			if h == nil {
				h = &hist{node: ev.node}
				hists[i][ev.node] = h
			}
			h.evs = append(h.evs, ev)
		}
		x.onSave = nil
		ops := genOps(w, x.tag, ns, mean, blk, false, true)
		xs = append(xs, x)
		w.Spawn(x.tag, func() { x.run(ops) })
	}
	// flusher / saver tasks
	var saves []c13save
	nsaver := 1 + w.Choose("savers", 2)
	for s := 0; s < nsaver; s++ {
		s := s
		type sop struct {
			kind  int
			dir   string
			short bool
		}
		var sops []sop
		for len(sops) < 30 && w.Choose(fmt.Sprintf("s%d-more", s), 6) != 0 {
			o := sop{kind: w.Choose(fmt.Sprintf("s%d-kind", s), 3)}
			o.dir = append([]string{""}, base.dirs...)[w.Choose(fmt.Sprintf("s%d-dir", s), len(base.dirs)+1)]
			o.short = w.Choose(fmt.Sprintf("s%d-short", s), 2) == 1
			sops = append(sops, o)
		}
		w.Spawn(fmt.Sprintf("saver%d", s), func() {
			for _, o := range sops {
				if w.Failed() {
					return
				}
				vsim.Yield("op", "saver")
				switch o.kind {
				case 0:
					w.Logf("flush %q %v", o.dir, o.short)
					fs.Flush(o.dir, o.short)
				case 1:
					c := w.Stamp()
					txt, err := fs.MarshalManifest(".")
					r := w.Stamp()
					w.Logf("marshal err=%v", err != nil)
					if err == nil {
						saves = append(saves, c13save{txt, c, r, "marshal"})
					} else if k.nfailed == 0 {
						w.Violation("save/failed-without-any-write-failure", "MarshalManifest returned %v although no Keep write has failed", err)
					}
				case 2:
					c := w.Stamp()
					n0 := len(api.manifests)
					err := fs.Sync()
					r := w.Stamp()
					w.Logf("sync err=%v", err != nil)
					if err == nil && len(api.manifests) > n0 {
						saves = append(saves, c13save{api.manifests[len(api.manifests)-1], c, r, "sync"})
					}
				}
			}
		})
	}
	// foreign readers
	var reads []c13read
	nreaders := w.Choose("readers", 3)
	for rd := 0; rd < nreaders; rd++ {
		rd := rd
		type rop struct {
			path   string
			off, n int
		}
		var rops []rop
		for len(rops) < 40 && w.Choose(fmt.Sprintf("r%d-more", rd), 10) != 0 {
			wi := w.Choose(fmt.Sprintf("r%d-worker", rd), nworkers)
			ns := c13Namespace(odd, fmt.Sprintf("w%d_", wi))
			rops = append(rops, rop{ns.files[w.Choose(fmt.Sprintf("r%d-path", rd), len(ns.files))], w.Choose(fmt.Sprintf("r%d-off", rd), 4*blk+2), 1 + w.Choose(fmt.Sprintf("r%d-n", rd), 3*blk+1)})
		}
		w.Spawn(fmt.Sprintf("reader%d", rd), func() {
			var mine []c13read
			for _, o := range rops {
				if w.Failed() {
					break
				}
				vsim.Yield("op", "reader")
				f, err := fs.Open(o.path)
				if err != nil {
					continue
				}
				fh, ok := f.(*filehandle)
				if !ok || fh.inode.IsDir() {
					f.Close()
					continue
				}
				if _, err := f.Seek(int64(o.off), io.SeekStart); err != nil {
					w.Violation("fs/seek", "reader: Seek(%d): %v", o.off, err)
				}
				buf := make([]byte, o.n)
				c := w.Stamp()
				n, err := f.Read(buf)
				r := w.Stamp()
				f.Close()
				if err != nil && err != io.EOF {
					w.Violation("fs/foreign-read-error", "reader: Read(%q @%d): %v", o.path, o.off, err)
					break
				}
				w.Logf("foreign read %q @%d -> %d bytes eof=%v", o.path, o.off, n, err == io.EOF)
				mine = append(mine, c13read{fh.inode, int64(o.off), append([]byte(nil), buf[:n]...), err == io.EOF, c, r})
				w.Probe("foreign-read")
			}
			// (appended at the end so that slices are not shared between tasks)
			vsim.Yield("op", "reader-done")
			reads = append(reads, mine...)
		})
	}
	w.Run(nil)
	if w.Failed() || w.Truncated() {
		return
	}
	if !w.AllDone() {
		w.Violation("fs/deadlock", "tasks never finished: %s", strings.Join(w.Blocked(), "; "))
		return
	}
	// ---- end-of-run oracles (root; the filesystem is quiescent) ------------------------
	k.faultsOff = true
	merged := &mfs{root: newDir()}
	for _, d := range base.dirs {
		dir, name := splitPath(d)
		p, _ := merged.walk(dir)
		p.kids[name] = newDir()
	}
	var mergeFrom func(dst, src *mnode)
	mergeFrom = func(dst, src *mnode) {
		for name, kd := range src.kids {
			if kd.dir {
				mergeFrom(dst.kids[name], kd)
			} else {
				dst.kids[name] = kd
			}
		}
	}
	for _, x := range xs {
		mergeFrom(merged.root, x.m.root)
	}
	r := &collfsRun{w: w, k: k, api: api, fs: fs, m: merged, blk: blk}
	fin := false
	w.Spawn("final", func() {
		r.checkLive("final content vs per-owner sequential models")
		if w.Failed() {
			return
		}
		txt, err := fs.MarshalManifest(".")
		if err != nil {
			w.Violation("save/no-recovery-after-faults-stop", "final MarshalManifest: %v", err)
			return
		}
		r.checkSave(txt, "final save")
		fin = true
	})
	w.Run(nil)
	if w.Failed() || w.Truncated() {
		return
	}
	if !fin {
		w.Violation("fs/deadlock", "final save never finished: %s", strings.Join(w.Blocked(), "; "))
		return
	}
	// saves taken during the activity: every file holds a content it passed through in the save's window
	allVers := map[string][]pathVersion{}
	for _, x := range xs {
		for p, vs := range x.vers {
			allVers[p] = vs
		}
	}
	for si, s := range saves {
		ref, err := refParse(s.txt, k.blockOf)
		if err != nil {
			w.Violation("save/manifest-invalid", "save #%d (%s) during activity: %v\n%s", si, s.how, err, s.txt)
			return
		}
		paths := map[string]bool{}
		for p := range ref.files {
			paths[p] = true
		}
		for p := range allVers {
			paths[p] = true
		}
		var ps []string
		for p := range paths {
			ps = append(ps, p)
		}
		sort.Strings(ps)
		for _, p := range ps {
			got, present := ref.files[p]
			vs := append([]pathVersion{{absent: true}}, allVers[p]...)
			ok := false
			for i, v := range vs {
				if v.call > s.ret {
					break
				}
				if i+1 < len(vs) && vs[i+1].ret < s.call {
					continue // superseded before the save began
				}
				if v.absent != !present {
					continue
				}
				if present && !bytes.Equal(v.data, got) {
					continue
				}
				ok = true
				break
			}
			if !ok {
				w.Violation("save/concurrent-snapshot", "save #%d (%s, stamps %d..%d): file %q present=%v content %q is no content that file held during the save (history: %s)", si, s.how, s.call, s.ret, p, present, trunc(got), fmtVers(vs))
				return
			}
		}
		w.Probe("concurrent-save-checked")
	}
	// cross-worker reads: linearizability per file against a byte-array model
	byIno := map[inode][]c13read{}
	for _, rd := range reads {
		byIno[rd.ino] = append(byIno[rd.ino], rd)
	}
	for wi, x := range xs {
		var nodes []*mnode
		for n := range x.inodes {
			nodes = append(nodes, n)
		}
		sort.Slice(nodes, func(i, j int) bool { return fmt.Sprintf("%p", x.inodes[nodes[i]]) < fmt.Sprintf("%p", x.inodes[nodes[j]]) })
		for _, n := range nodes {
			rds := byIno[x.inodes[n]]
			if len(rds) == 0 {
				continue
			}
			var ops []porcupine.Operation
			if h := hists[wi][n]; h != nil {
				for _, ev := range h.evs {
					ops = append(ops, porcupine.Operation{ClientId: 0, Input: fileIn{kind: ev.kind, off: ev.off, data: ev.data, size: ev.size}, Call: ev.call, Output: fileOut{}, Return: ev.ret})
				}
			}
			for _, rd := range rds {
				ops = append(ops, porcupine.Operation{ClientId: 1, Input: fileIn{kind: "read", off: rd.off}, Call: rd.call, Output: fileOut{rd.data, rd.eof}, Return: rd.ret})
			}
			if len(ops) > 60 {
				w.Probe("history-too-long-skipped")
				continue
			}
			// clients must be sequential per ClientId: give every read its own client id
			for i := range ops {
				if ops[i].ClientId == 1 {
					ops[i].ClientId = 1 + i
				}
			}
			res := porcupine.CheckOperationsTimeout(c13model, ops, 20*time.Second)
			switch res {
			case porcupine.Illegal:
				w.Violation("fs/cross-worker-read-not-linearizable", "worker %d file: history of %d owner mutations and %d foreign reads has no linearization against a byte-array model: %s", wi, len(ops)-len(rds), len(rds), fmtOps(ops))
				return
			case porcupine.Unknown:
				w.Probe("porcupine-unknown")
			default:
				w.Probe("porcupine-ok")
			}
		}
	}
	mf, md := map[string][]byte{}, map[string]bool{}
	merged.flatten(merged.root, "", mf, md)
	w.SetEndState(fmt.Sprintf("%d files %d puts %d failed %d saves %d reads", len(mf), k.nput, k.nfailed, len(saves), len(reads)))
}

func fmtVers(vs []pathVersion) string {
	var s []string
	for _, v := range vs {
		if v.absent {
			s = append(s, fmt.Sprintf("[%d..%d absent]", v.call, v.ret))
		} else {
			s = append(s, fmt.Sprintf("[%d..%d %q]", v.call, v.ret, trunc(v.data)))
		}
	}
	return strings.Join(s, " ")
}

func fmtOps(ops []porcupine.Operation) string {
	var s []string
	for _, o := range ops {
		in := o.Input.(fileIn)
		out := o.Output.(fileOut)
		switch in.kind {
		case "read":
			s = append(s, fmt.Sprintf("[%d..%d read@%d=%q eof=%v]", o.Call, o.Return, in.off, out.data, out.eof))
		case "write":
			s = append(s, fmt.Sprintf("[%d..%d write@%d %q]", o.Call, o.Return, in.off, in.data))
		default:
			s = append(s, fmt.Sprintf("[%d..%d trunc %d]", o.Call, o.Return, in.size))
		}
	}
	return strings.Join(s, " ")
}

// c13Namespace keeps each worker's files few (2 names x 3 directories) so that readers of
// other workers' files usually find them, while the shared directory set stays the full one.
func c13Namespace(odd bool, prefix string) namespace {
	full := mkNamespace(odd, prefix)
	ns := namespace{dirs: full.dirs}
	names := []string{prefix + "a", prefix + "b"}
	if odd {
		names = []string{prefix + "sp ace", prefix + "back\\slash"}
	}
	for _, d := range []string{"", full.dirs[0], full.dirs[0] + "/s"} {
		for _, n := range names {
			if d == "" {
				ns.files = append(ns.files, n)
			} else {
				ns.files = append(ns.files, d+"/"+n)
			}
		}
	}
	return ns
}
