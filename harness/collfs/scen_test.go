//go:build go1.26

package arvados

import (
	"crypto/md5"
	"fmt"
	"io"
	"os"
	"sort"
	"strings"

	"verif.local/vsim"
)

// genInitial draws an initial tree and lays it out as a (non-normalized) manifest whose
// blocks are stored in the Keep model.
func genInitial(w *vsim.World, ns namespace, k *simKeep) (*mfs, string) {
	m := &mfs{root: newDir()}
	if w.Choose("initial", 3) == 0 {
		return m, ""
	}
	nfiles := 1 + w.Choose("init-files", 6)
	byDir := map[string][]string{}
	for i := 0; i < nfiles; i++ {
		p := ns.files[w.Choose("init-path", len(ns.files))]
		dir, name := splitPath(p)
		// create parents
		n := m.root
		if dir != "" {
			for _, c := range strings.Split(dir, "/") {
				if n.kids[c] == nil {
					n.kids[c] = newDir()
				}
				n = n.kids[c]
			}
		}
		if n.kids[name] != nil {
			continue
		}
		size := w.Choose("init-size", 40)
		n.kids[name] = &mnode{data: wdata(1000+i, size)}
		byDir[dir] = append(byDir[dir], name)
	}
	var dirs []string
	for d := range byDir {
		dirs = append(dirs, d)
	}
	sort.Strings(dirs)
	var txt strings.Builder
	for _, d := range dirs {
		node, _ := m.walk(d)
		// stream data = concatenation of the files in drawn order, cut into blocks at drawn sizes
		names := byDir[d]
		var data []byte
		type part struct {
			name     string
			pos, len int
		}
		var parts []part
		for _, name := range names {
			fd := node.kids[name].data
			// optionally split a file into two tokens
			if len(fd) > 1 && w.Choose("init-split", 3) == 2 {
				cut := 1 + w.Choose("init-cut", len(fd)-1)
				parts = append(parts, part{name, len(data), cut}, part{name, len(data) + cut, len(fd) - cut})
			} else {
				parts = append(parts, part{name, len(data), len(fd)})
			}
			data = append(data, fd...)
		}
		var locs []string
		zero := 0
		for pos := 0; pos < len(data) || len(locs) == 0; {
			n := w.Choose("init-blk", 24)
			if n == 0 {
				if zero++; zero > 1 {
					n = len(data) - pos // no endless run of zero-length blocks
				}
			}
			if pos+n > len(data) {
				n = len(data) - pos
			}
			b := data[pos : pos+n]
			k.store(b)
			loc := fmt.Sprintf("%x+%d+A%040x@5f5e0fff", md5.Sum(b), n, len(k.orig)+1)
			k.orig[loc] = true
			locs = append(locs, loc)
			pos += n
			if n == 0 && pos >= len(data) {
				break
			}
		}
		sname := "."
		if d != "" {
			sname = "./" + d
		}
		txt.WriteString(manifestEscapeRef(sname))
		for _, l := range locs {
			txt.WriteString(" " + l)
		}
		for _, p := range parts {
			txt.WriteString(fmt.Sprintf(" %d:%d:%s", p.pos, p.len, manifestEscapeRef(p.name)))
		}
		txt.WriteString("\n")
	}
	return m, txt.String()
}

// manifestEscapeRef is the oracle's own escaper (octal for everything that is not a
// printable non-space ASCII byte other than backslash and colon-free is not required).
func manifestEscapeRef(s string) string {
	var b strings.Builder
	for i := 0; i < len(s); i++ {
		c := s[i]
		if c <= 0x20 || c == '\\' || c == 0x7f || c == ':' {
			b.WriteString(fmt.Sprintf("\\%03o", c))
		} else {
			b.WriteByte(c)
		}
	}
	return b.String()
}

type collfsRun struct {
	w   *vsim.World
	k   *simKeep
	api *simAPI
	fs  CollectionFileSystem
	m   *mfs
	blk int
}

func setupCollfs(w *vsim.World, ns namespace) *collfsRun {
	blk := []int{1, 2, 3, 4, 5, 7, 8, 13, 16, 32, 64}[w.Choose("blocksize", 11)]
	maxBlockSize = blk
	concurrentWriters = 1 + (3+w.Choose("writers", 4))%4 // 4,1,2,3
	k := newSimKeep(w)
	api := &simAPI{w: w}
	m, txt := genInitial(w, ns, k)
	fs, err := (&Collection{UUID: "zzzzz-4zz18-000000000000000", ManifestText: txt}).FileSystem(api, k)
	if err != nil {
		w.Infra("initial manifest rejected: %v\n%s", err, txt)
		return nil
	}
	w.Logf("config blk=%d writers=%d initial=%q", blk, concurrentWriters, txt)
	return &collfsRun{w: w, k: k, api: api, fs: fs, m: m, blk: blk}
}

// checkSave applies the C09 oracle to a manifest produced by a successful save.
func (r *collfsRun) checkSave(txt string, tag string) {
	w := r.w
	ref, err := refParse(txt, r.k.blockOf)
	if err != nil {
		w.Violation("save/manifest-invalid", "%s: manifest is not valid under the published grammar: %v\n%s", tag, err, txt)
		return
	}
	mf, md := map[string][]byte{}, map[string]bool{}
	r.m.flatten(r.m.root, "", mf, md)
	if d := diffTrees(ref.files, ref.dirs, mf, md); d != "" {
		w.Violation("save/manifest-differs-from-tree", "%s: reference reading of the saved manifest vs live tree (model): %s\n%s", tag, d, txt)
		return
	}
	for _, l := range ref.locs {
		if !r.k.orig[l] && r.k.issued[l] == nil && !strings.HasPrefix(l, "d41d8cd98f00b204e9800998ecf8427e+0") {
			w.Violation("save/locator-provenance", "%s: locator %s is neither from the original manifest nor returned by a successful Keep write", tag, l)
			return
		}
	}
	// a second real filesystem loaded from the text must show the same tree
	fs2, err := (&Collection{ManifestText: txt}).FileSystem(nil, r.k)
	if err != nil {
		w.Violation("save/manifest-does-not-load", "%s: %v\n%s", tag, err, txt)
		return
	}
	lf, ld := map[string][]byte{}, map[string]bool{}
	if err := walkReal(fs2, "", lf, ld); err != nil {
		w.Violation("save/reload-read-error", "%s: %v", tag, err)
		return
	}
	if d := diffTrees(lf, ld, mf, md); d != "" {
		w.Violation("save/reloaded-tree-differs", "%s: filesystem loaded from the saved manifest vs model: %s\n%s", tag, d, txt)
		return
	}
	if got, want := fs2.Size(), r.m.totalSize(r.m.root); got != want {
		w.Violation("save/total-size", "%s: reloaded Size()=%d, model %d", tag, got, want)
	}
	w.Probe("save-checked")
}

// checkLive compares the live filesystem with the model by walking and reading everything.
func (r *collfsRun) checkLive(tag string) {
	lf, ld := map[string][]byte{}, map[string]bool{}
	if err := walkReal(r.fs, "", lf, ld); err != nil {
		r.w.Violation("fs/live-read-error", "%s: %v", tag, err)
		return
	}
	mf, md := map[string][]byte{}, map[string]bool{}
	r.m.flatten(r.m.root, "", mf, md)
	if d := diffTrees(lf, ld, mf, md); d != "" {
		r.w.Violation("fs/live-tree-differs", "%s: live filesystem vs model: %s", tag, d)
	}
}

// ---- C08: one worker, background flushes complete whenever the scheduler says --------

func scenC08(w *vsim.World, spec *vsim.Spec) {
	if spec.Tier == "thorough" && w.RunIndex()%1000 == 7 {
		scenC08Production(w)
		return
	}
	ns := mkNamespace(w.Choose("odd-names", 4) == 3, "")
	r := setupCollfs(w, ns)
	if r == nil {
		return
	}
	w.HoldKinds(map[string]int{"keep-put": []int{0, 300, 700, 950}[w.Choose("hold-puts", 4)]})
	mean := 30
	if spec.Tier == "thorough" {
		mean = []int{30, 100, 300}[w.Choose("mean", 3)]
	}
	hotFileProfile = w.Choose("profile", 3) == 2
	defer func() { hotFileProfile = false }()
	if hotFileProfile {
		w.Probe("hot-file-profile")
	}
	ops := genOps(w, "w", ns, mean, r.blk, true)
	x := &executor{w: w, fs: r.fs, m: r.m, tag: "w", blk: r.blk}
	done := false
	w.Spawn("w", func() {
		x.run(ops)
		if !w.Failed() {
			r.checkLive("end of run")
		}
		done = true
	})
	w.Run(nil)
	if w.Failed() || w.Truncated() {
		return
	}
	if !done || !w.AllDone() {
		w.Violation("fs/deadlock", "%s", strings.Join(w.Blocked(), "; "))
		return
	}
	mf, md := map[string][]byte{}, map[string]bool{}
	r.m.flatten(r.m.root, "", mf, md)
	w.SetEndState(fmt.Sprintf("%d files %d dirs %d puts", len(mf), len(md), r.k.nput))
}

// ---- C09: saved manifests under Keep write failures ----------------------------------

func scenC09(w *vsim.World, spec *vsim.Spec) {
	ns := mkNamespace(w.Choose("odd-names", 2) == 1, "")
	r := setupCollfs(w, ns)
	if r == nil {
		return
	}
	k := r.k
	switch w.Choose("failure-mode", 5) {
	case 1:
		k.failKth = 1 + w.Choose("kth", 12)
	case 2:
		k.failRate = []int{100, 300, 600}[w.Choose("rate", 3)]
	case 3:
		k.failBG, k.failRate = true, []int{300, 700, 1000}[w.Choose("rate", 3)]
	case 4:
		k.failSave, k.failRate = true, []int{300, 700, 1000}[w.Choose("rate", 3)]
	}
	w.HoldKinds(map[string]int{"keep-put": []int{0, 300, 700, 950}[w.Choose("hold-puts", 4)]})
	mean := 25
	if spec.Tier == "thorough" {
		mean = []int{25, 80, 200}[w.Choose("mean", 3)]
	}
	hotFileProfile = w.Choose("profile", 3) == 2
	defer func() { hotFileProfile = false }()
	if hotFileProfile {
		w.Probe("hot-file-profile")
	}
	ops := genOps(w, "w", ns, mean, r.blk, true)
	// make sure every run ends with saves: one while faults may still flow, one after they stopped
	x := &executor{w: w, fs: r.fs, m: r.m, tag: "w", blk: r.blk}
	k.inSave = func() bool { return x.inSave }
	x.onSave = func(txt string, err error, how string) {
		if err != nil {
			w.Probe("save-failed")
			if k.nfailed == 0 {
				w.Violation("save/failed-without-any-write-failure", "%s returned %v although no Keep write has failed", how, err)
				return
			}
			r.checkLive("after failed " + how) // buffered data stays intact and readable
			return
		}
		if how == "sync" {
			if len(r.api.manifests) == 0 {
				w.Violation("save/sync-sent-nothing", "Sync returned nil without updating the collection")
				return
			}
			txt = r.api.manifests[len(r.api.manifests)-1]
		}
		r.checkSave(txt, how)
	}
	done := false
	w.Spawn("w", func() {
		x.run(ops)
		if w.Failed() {
			return
		}
		x.apply(fsop{kind: opMarshal, idx: len(ops)})
		k.faultsOff = true
		x.inSave = true
		txt, err := r.fs.MarshalManifest(".")
		x.inSave = false
		if err != nil {
			w.Violation("save/no-recovery-after-faults-stop", "MarshalManifest still fails after Keep write failures stopped: %v", err)
			return
		}
		r.checkSave(txt, "final save after faults stopped")
		if !w.Failed() {
			r.checkLive("end of run")
		}
		done = true
	})
	w.Run(nil)
	if w.Failed() || w.Truncated() {
		return
	}
	if !done || !w.AllDone() {
		w.Violation("fs/deadlock", "%s", strings.Join(w.Blocked(), "; "))
		return
	}
	mf, md := map[string][]byte{}, map[string]bool{}
	r.m.flatten(r.m.root, "", mf, md)
	w.SetEndState(fmt.Sprintf("%d files %d dirs %d puts %d failed", len(mf), len(md), k.nput, k.nfailed))
}


// scenC08Production is the smoke run at the production block limit (64 MiB): writes that
// straddle the block boundary, a read across it, a truncate just beyond it, then a save.
func scenC08Production(w *vsim.World) {
	const blk = 1 << 26
	maxBlockSize = blk
	readAllChunk = 1 << 22
	defer func() { readAllChunk = 257 }()
	concurrentWriters = 4
	k := newSimKeep(w)
	api := &simAPI{w: w}
	fs, err := (&Collection{UUID: "zzzzz-4zz18-000000000000000"}).FileSystem(api, k)
	if err != nil {
		w.Infra("%v", err)
		return
	}
	w.Probe("production-block-limit-run")
	m := &mfs{root: newDir()}
	r := &collfsRun{w: w, k: k, api: api, fs: fs, m: m, blk: blk}
	delta := w.Choose("boundary-delta", 5) // first write ends delta-2 bytes from the boundary
	done := false
	w.Spawn("w", func() {
		x := &executor{w: w, fs: fs, m: m, tag: "w", blk: blk}
		x.apply(fsop{kind: opOpen, p1: "big", flags: os.O_CREATE | os.O_RDWR, slot: 0, idx: 0})
		x.apply(fsop{kind: opWrite, slot: 0, n: blk - 2 + delta, idx: 1})
		x.apply(fsop{kind: opWrite, slot: 0, n: 5, idx: 2})
		x.apply(fsop{kind: opSeek, slot: 0, flags: io.SeekStart, off: blk - 3, idx: 3})
		x.apply(fsop{kind: opRead, slot: 0, n: 7, idx: 4})
		x.apply(fsop{kind: opTrunc, slot: 0, n: blk + 1, idx: 5})
		x.apply(fsop{kind: opSeek, slot: 0, flags: io.SeekEnd, off: -2, idx: 6})
		x.apply(fsop{kind: opRead, slot: 0, n: 4, idx: 7})
		x.apply(fsop{kind: opSize, slot: 0, idx: 8})
		if w.Failed() {
			return
		}
		txt, err := fs.MarshalManifest(".")
		if err != nil {
			w.Violation("fs/marshal-failed", "production block limit: %v", err)
			return
		}
		r.checkSave(txt, "production-block-limit save")
		done = true
	})
	w.Run(nil)
	if w.Failed() || w.Truncated() {
		return
	}
	if !done {
		w.Violation("fs/deadlock", "%s", strings.Join(w.Blocked(), "; "))
	}
	w.SetEndState("production-block-limit")
}
