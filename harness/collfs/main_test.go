//go:build go1.26

//go:debug asynctimerchan=0

package arvados

import (
	"testing"

	"verif.local/vsim"
)

func TestVerif(t *testing.T) {
	vsim.Main(t, map[string]vsim.Scenario{
		"C08": scenC08,
		"C09": scenC09,
		"C13": scenC13,
	})
}
