// vinstr: type-aware build-time rewriter (DESIGN.md 2.2). It reads files of ONE package
// from the repository's current working tree and writes instrumented copies plus an
// overlay fragment. Nothing in the repository is modified.
//
//	R1 sync       sync.Mutex/RWMutex/Once/Pool       -> vsim.Mutex/RWMutex/Once/Pool
//	R2 go         go f(a,b)                          -> { t0,t1 := a,b; vsim.Go(func(){ f(t0,t1) }) }
//	R3 afterfunc  time.AfterFunc                     -> vsim.AfterFunc
//	R4 maprange   for k,v := range m                 -> iteration over vsim.SortedKeys(m)
//	R5 select     select with >=2 communication cases-> source-order polls, then the blocking select
//	R6 rand       crypto/rand.Read, math/rand.*      -> vsim.Rand*
//	R7 fscalls    os./ioutil./syscall./filepath. calls and *os.File methods -> vsimfs.*
//	R8 fspoints   vsimfs.Point(site) before any other statement that calls into os, io/ioutil, syscall, path/filepath
//	R10 transport Transport: &http.Transport{...} in a struct literal -> Transport: vsim.HTTPTransport(&http.Transport{...})
//	R9 preempt    vsim.Preempt(site) before every statement of every function body (statement-level preemption for
//	              small lock-free files; use together with R1)
package main

import (
	"bytes"
	"crypto/sha256"
	"encoding/json"
	"flag"
	"fmt"
	"go/ast"
	"go/format"
	"go/token"
	"go/types"
	"os"
	"path/filepath"
	"sort"
	"strings"

	"golang.org/x/tools/go/ast/astutil"
	"golang.org/x/tools/go/packages"
)

var fsFuncs = map[string]map[string]bool{
	"os": {"Open": true, "OpenFile": true, "Stat": true, "Lstat": true, "Remove": true, "RemoveAll": true, "Rename": true, "MkdirAll": true, "Mkdir": true,
		"Chtimes": true, "Readlink": true, "Symlink": true, "Create": true, "Truncate": true, "Link": true, "WriteFile": true, "ReadFile": true},
	"io/ioutil":     {"TempFile": true, "ReadDir": true, "WriteFile": true, "ReadFile": true},
	"syscall":       {"Flock": true, "Statfs": true, "Utime": true},
	"path/filepath": {"Walk": true},
	"io":            {"Copy": true},
}

var fileMethods = map[string]bool{"Close": true, "Sync": true, "Readdir": true, "Readdirnames": true, "Write": true, "Read": true, "Stat": true, "Truncate": true, "Seek": true, "WriteString": true}

var fsPkgs = map[string]bool{"os": true, "io/ioutil": true, "syscall": true, "path/filepath": true}

// os functions with no filesystem effect: no Point needed
var harmless = map[string]bool{"os.IsNotExist": true, "os.IsExist": true, "os.Getenv": true, "os.IsPermission": true, "os.Getpid": true, "os.Exit": true,
	"filepath.Join": true, "filepath.Base": true, "filepath.Dir": true, "filepath.Clean": true, "filepath.Abs": true, "filepath.Rel": true, "filepath.Ext": true, "filepath.Split": true,
	"ioutil.NopCloser": true, "ioutil.ReadAll": true, "ioutil.Discard": true, "os.Hostname": true, "os.Getuid": true, "filepath.Match": true, "filepath.ToSlash": true, "filepath.FromSlash": true,
	"os.NewSyscallError": true, "os.Getpagesize": true, "syscall.Errno": true, "os.Environ": true, "os.LookupEnv": true, "os.Setenv": true, "os.Getwd": true, "os.FileMode": true, "filepath.IsAbs": true}

var r9funcs = map[string]bool{}
var r2funcs = map[string]bool{}

func main() {
	repo := flag.String("repo", "/repo", "")
	out := flag.String("out", "", "output dir")
	pkg := flag.String("pkg", "", "package path relative to repo, e.g. ./sdk/go/arvados")
	filesArg := flag.String("files", "", "comma-separated base names (trailing * = prefix match)")
	rulesArg := flag.String("rules", "R1,R2,R3,R4,R5", "")
	modfile := flag.String("modfile", "", "")
	flag.Parse()
	rules := map[string]bool{}
	for _, r := range strings.Split(*rulesArg, ",") {
		r = strings.TrimSpace(r)
		if strings.HasPrefix(r, "R9:") { // R9:FuncA|FuncB = only inside these top-level functions/methods
			for _, fn := range strings.Split(strings.TrimPrefix(r, "R9:"), "|") {
				r9funcs[fn] = true
			}
			r = "R9"
		}
		if strings.HasPrefix(r, "R2:") { // likewise for go statements
			for _, fn := range strings.Split(strings.TrimPrefix(r, "R2:"), "|") {
				r2funcs[fn] = true
			}
			r = "R2"
		}
		rules[r] = true
	}
	cfg := &packages.Config{Mode: packages.NeedName | packages.NeedFiles | packages.NeedSyntax | packages.NeedTypes | packages.NeedTypesInfo | packages.NeedImports | packages.NeedDeps, Dir: *repo}
	if *modfile != "" {
		cfg.BuildFlags = []string{"-modfile=" + *modfile}
	}
	pkgs, err := packages.Load(cfg, *pkg)
	if err != nil || len(pkgs) != 1 {
		fmt.Fprintln(os.Stderr, "load:", err, len(pkgs))
		os.Exit(2)
	}
	if len(pkgs[0].Errors) > 0 {
		fmt.Fprintln(os.Stderr, "load errors:", pkgs[0].Errors)
		os.Exit(2)
	}
	p := pkgs[0]
	want := strings.Split(*filesArg, ",")
	overlay := map[string]string{}
	counts := map[string]int{}
	var skipped []string
	hashes := map[string]string{}
	for _, f := range p.Syntax {
		path := p.Fset.Position(f.Package).Filename
		base := filepath.Base(path)
		ok := false
		for _, w := range want {
			if strings.HasSuffix(w, "*") && strings.HasPrefix(base, strings.TrimSuffix(w, "*")) || w == base {
				ok = true
			}
		}
		if !ok || strings.HasSuffix(base, "_test.go") {
			continue
		}
		rw := &rewriter{p: p, f: f, rules: rules, counts: counts, base: base}
		rw.run()
		skipped = append(skipped, rw.skipped...)
		var buf bytes.Buffer
		buf.WriteString("//go:build go1.18\n\n")
		if err := format.Node(&buf, p.Fset, f); err != nil {
			fmt.Fprintln(os.Stderr, "format", base, err)
			os.Exit(2)
		}
		dst := filepath.Join(*out, base)
		os.MkdirAll(*out, 0755)
		if err := os.WriteFile(dst, buf.Bytes(), 0644); err != nil {
			fmt.Fprintln(os.Stderr, err)
			os.Exit(2)
		}
		overlay[path] = dst
		hashes[base] = fmt.Sprintf("%x", sha256.Sum256(buf.Bytes()))[:16]
	}
	if len(overlay) == 0 {
		fmt.Fprintln(os.Stderr, "vinstr: no file matched", *filesArg)
		os.Exit(2)
	}
	sort.Strings(skipped)
	rep := map[string]any{"counts": counts, "skipped": skipped, "files": hashes}
	j, _ := json.MarshalIndent(map[string]any{"Replace": overlay, "Report": rep}, "", " ")
	os.WriteFile(filepath.Join(*out, "overlay.json"), j, 0644)
	fmt.Println(counts)
}

type rewriter struct {
	p        *packages.Package
	f        *ast.File
	rules    map[string]bool
	counts   map[string]int
	skipped  []string
	base     string
	tmp      int
	usedVsim bool
	usedFs   bool
	curFunc  string // name of the enclosing top-level function (pre-order walk)
}

func (rw *rewriter) newName() string { rw.tmp++; return fmt.Sprintf("vsimTmp%d", rw.tmp) }
func (rw *rewriter) pos(n ast.Node) string {
	return fmt.Sprintf("%s:%d", rw.base, rw.p.Fset.Position(n.Pos()).Line)
}
func (rw *rewriter) skip(rule string, n ast.Node, why string) {
	rw.skipped = append(rw.skipped, fmt.Sprintf("%s %s: %s", rule, rw.pos(n), why))
	rw.counts[rule+"-skipped"]++
}

// pkgOf returns the import path if e is a package identifier.
func (rw *rewriter) pkgOf(e ast.Expr) string {
	id, ok := e.(*ast.Ident)
	if !ok {
		return ""
	}
	if pn, ok := rw.p.TypesInfo.Uses[id].(*types.PkgName); ok {
		return pn.Imported().Path()
	}
	return ""
}

func vsimSel(name string) ast.Expr {
	return &ast.SelectorExpr{X: ast.NewIdent("vsim"), Sel: ast.NewIdent(name)}
}
func fsSel(name string) ast.Expr {
	return &ast.SelectorExpr{X: ast.NewIdent("vsimfs"), Sel: ast.NewIdent(name)}
}

func (rw *rewriter) isOSFile(e ast.Expr) bool {
	t := rw.p.TypesInfo.TypeOf(e)
	if t == nil {
		return false
	}
	if pt, ok := t.(*types.Pointer); ok {
		if nt, ok := pt.Elem().(*types.Named); ok {
			return nt.Obj().Pkg() != nil && nt.Obj().Pkg().Path() == "os" && nt.Obj().Name() == "File"
		}
	}
	return false
}

func (rw *rewriter) run() {
	f := rw.f
	// R8 first (needs the original call expressions to classify statements), as a pre-pass that
	// only records where to insert; insertion happens in the main pass via Cursor.InsertBefore.
	points := map[ast.Stmt]string{}
	if rw.rules["R8"] {
		ast.Inspect(f, func(n ast.Node) bool {
			blk, ok := n.(*ast.BlockStmt)
			var list []ast.Stmt
			if ok {
				list = blk.List
			} else if cc, ok := n.(*ast.CaseClause); ok {
				list = cc.Body
			} else if cc, ok := n.(*ast.CommClause); ok {
				list = cc.Body
			} else {
				return true
			}
			for _, st := range list {
				switch st.(type) {
				case *ast.ExprStmt, *ast.AssignStmt, *ast.ReturnStmt, *ast.DeferStmt, *ast.GoStmt, *ast.DeclStmt, *ast.IncDecStmt, *ast.SendStmt:
				case *ast.IfStmt:
				default:
					continue
				}
				if callee := rw.unshimmedFsCall(st); callee != "" {
					points[st] = fmt.Sprintf("%s:%s", rw.pos(st), callee)
				}
			}
			return true
		})
	}
	preempt := map[ast.Stmt]string{}
	if rw.rules["R9"] {
		ast.Inspect(f, func(n ast.Node) bool {
			if fd, ok := n.(*ast.FuncDecl); ok && len(r9funcs) > 0 && !r9funcs[fd.Name.Name] {
				return false
			}
			var list []ast.Stmt
			switch b := n.(type) {
			case *ast.BlockStmt:
				list = b.List
			case *ast.CaseClause:
				list = b.Body
			case *ast.CommClause:
				list = b.Body
			default:
				return true
			}
			for _, st := range list {
				switch st.(type) {
				case *ast.ExprStmt, *ast.AssignStmt, *ast.ReturnStmt, *ast.DeferStmt, *ast.GoStmt, *ast.IncDecStmt, *ast.SendStmt,
					*ast.IfStmt, *ast.ForStmt, *ast.RangeStmt, *ast.SwitchStmt, *ast.TypeSwitchStmt, *ast.SelectStmt:
					preempt[st] = rw.pos(st)
				}
			}
			return true
		})
	}
	astutil.Apply(f, func(c *astutil.Cursor) bool {
		switch n := c.Node().(type) {
		case *ast.SelectorExpr:
			pk := rw.pkgOf(n.X)
			if pk == "sync" && rw.rules["R1"] && (n.Sel.Name == "Mutex" || n.Sel.Name == "RWMutex" || n.Sel.Name == "Once" || n.Sel.Name == "Pool") {
				n.X.(*ast.Ident).Name = "vsim"
				rw.usedVsim = true
				rw.counts["R1"]++
			}
			if pk == "time" && rw.rules["R3"] && n.Sel.Name == "AfterFunc" {
				n.X.(*ast.Ident).Name = "vsim"
				rw.usedVsim = true
				rw.counts["R3"]++
			}
			if rw.rules["R6"] {
				if pk == "crypto/rand" && n.Sel.Name == "Read" {
					c.Replace(vsimSel("RandRead"))
					rw.usedVsim = true
					rw.counts["R6"]++
				} else if pk == "math/rand" {
					switch n.Sel.Name {
					case "Float64", "Int63", "Intn", "Int63n", "Int", "Int31n", "Uint32", "Perm":
						c.Replace(vsimSel("Rand" + n.Sel.Name))
						rw.usedVsim = true
						rw.counts["R6"]++
					default:
						rw.skip("R6", n, "math/rand."+n.Sel.Name)
					}
				}
			}
		case *ast.CallExpr:
			if !rw.rules["R7"] {
				break
			}
			if sel, ok := n.Fun.(*ast.SelectorExpr); ok {
				if pk := rw.pkgOf(sel.X); pk != "" {
					if fsFuncs[pk][sel.Sel.Name] {
						name := sel.Sel.Name
						if pk == "io/ioutil" && (name == "WriteFile" || name == "ReadFile") {
							name = "Ioutil" + name
						}
						n.Fun = fsSel(name)
						rw.usedFs = true
						rw.counts["R7"]++
					}
				} else if fileMethods[sel.Sel.Name] && rw.isOSFile(sel.X) {
					// f.Close() -> vsimfs.FileClose(f)
					n.Fun = fsSel("File" + sel.Sel.Name)
					n.Args = append([]ast.Expr{sel.X}, n.Args...)
					rw.usedFs = true
					rw.counts["R7"]++
				}
			}
		case *ast.KeyValueExpr:
			if rw.rules["R10"] {
				if k, ok := n.Key.(*ast.Ident); ok && k.Name == "Transport" {
					if u, ok := n.Value.(*ast.UnaryExpr); ok && u.Op == token.AND {
						if cl, ok := u.X.(*ast.CompositeLit); ok {
							if sel, ok := cl.Type.(*ast.SelectorExpr); ok && sel.Sel.Name == "Transport" && rw.pkgOf(sel.X) == "net/http" {
								n.Value = &ast.CallExpr{Fun: vsimSel("HTTPTransport"), Args: []ast.Expr{u}}
								rw.usedVsim = true
								rw.counts["R10"]++
							}
						}
					}
				}
			}
		case *ast.FuncDecl:
			rw.curFunc = n.Name.Name
		case *ast.GoStmt:
			if rw.rules["R2"] && (len(r2funcs) == 0 || r2funcs[rw.curFunc]) {
				rw.rewriteGo(c, n)
			}
		case *ast.RangeStmt:
			if rw.rules["R4"] {
				rw.rewriteRange(c, n)
			}
		}
		return true
	}, func(c *astutil.Cursor) bool {
		// post-order: selects (after their bodies were rewritten) and R8 insertions
		if n, ok := c.Node().(*ast.SelectStmt); ok && rw.rules["R5"] {
			rw.rewriteSelect(c, n)
		}
		if st, ok := c.Node().(ast.Stmt); ok {
			if site, ok := points[st]; ok && c.Index() >= 0 {
				c.InsertBefore(&ast.ExprStmt{X: &ast.CallExpr{Fun: fsSel("Point"), Args: []ast.Expr{&ast.BasicLit{Kind: token.STRING, Value: fmt.Sprintf("%q", site)}}}})
				rw.usedFs = true
				rw.counts["R8"]++
				delete(points, st)
			}
			if site, ok := preempt[st]; ok && c.Index() >= 0 {
				c.InsertBefore(&ast.ExprStmt{X: &ast.CallExpr{Fun: vsimSel("Preempt"), Args: []ast.Expr{&ast.BasicLit{Kind: token.STRING, Value: fmt.Sprintf("%q", site)}}}})
				rw.usedVsim = true
				rw.counts["R9"]++
				delete(preempt, st)
			}
		}
		return true
	})
	if rw.usedVsim {
		astutil.AddImport(rw.p.Fset, f, "verif.local/vsim")
	}
	if rw.usedFs {
		astutil.AddImport(rw.p.Fset, f, "verif.local/vsim/vsimfs")
	}
	for _, imp := range []string{"sync", "crypto/rand", "math/rand", "os", "io/ioutil", "syscall", "path/filepath", "io", "time"} {
		if !astutil.UsesImport(f, imp) {
			// keep named/blank imports
			astutil.DeleteImport(rw.p.Fset, f, imp)
		}
	}
}

// unshimmedFsCall returns the callee name if the statement contains a call into a
// filesystem package that R7 does not wrap (so a Point must precede it).
func (rw *rewriter) unshimmedFsCall(st ast.Stmt) string {
	found := ""
	var root ast.Node = st
	if is, ok := st.(*ast.IfStmt); ok {
		// only the init/cond of an if statement; its blocks are visited on their own
		if is.Init != nil {
			if s := rw.unshimmedFsCall(is.Init); s != "" {
				return s
			}
		}
		root = is.Cond
	}
	ast.Inspect(root, func(n ast.Node) bool {
		if found != "" {
			return false
		}
		if _, ok := n.(*ast.FuncLit); ok {
			return false // statements inside are visited on their own
		}
		call, ok := n.(*ast.CallExpr)
		if !ok {
			return true
		}
		sel, ok := call.Fun.(*ast.SelectorExpr)
		if !ok {
			return true
		}
		pk := rw.pkgOf(sel.X)
		if pk == "" {
			if rw.isOSFile(sel.X) && !fileMethods[sel.Sel.Name] {
				switch sel.Sel.Name {
				case "Name", "Fd":
				default:
					found = "(*os.File)." + sel.Sel.Name
				}
			}
			return true
		}
		if !fsPkgs[pk] || (rw.rules["R7"] && fsFuncs[pk][sel.Sel.Name]) {
			return true
		}
		short := pk[strings.LastIndex(pk, "/")+1:] + "." + sel.Sel.Name
		if harmless[short] {
			return true
		}
		found = short
		return false
	})
	return found
}

func (rw *rewriter) hoister(lhs, rhs *[]ast.Expr) func(e ast.Expr) ast.Expr {
	return func(e ast.Expr) ast.Expr {
		switch x := e.(type) {
		case *ast.BasicLit:
			return e
		case *ast.FuncLit:
			return e
		case *ast.Ident:
			if x.Name == "nil" || x.Name == "true" || x.Name == "false" {
				return e
			}
		}
		if tv, ok := rw.p.TypesInfo.Types[e]; ok && tv.Value != nil {
			return e
		}
		nm := ast.NewIdent(rw.newName())
		*lhs = append(*lhs, nm)
		*rhs = append(*rhs, e)
		return ast.NewIdent(nm.Name)
	}
}

func (rw *rewriter) rewriteGo(c *astutil.Cursor, n *ast.GoStmt) {
	call := n.Call
	// a call whose single argument is itself a multi-value call cannot be hoisted
	if len(call.Args) == 1 {
		if tv, ok := rw.p.TypesInfo.Types[call.Args[0]]; ok {
			if _, isTuple := tv.Type.(*types.Tuple); isTuple {
				rw.skip("R2", n, "multi-value argument")
				return
			}
		}
	}
	var lhs, rhs []ast.Expr
	hoist := rw.hoister(&lhs, &rhs)
	newCall := &ast.CallExpr{Fun: call.Fun, Ellipsis: call.Ellipsis}
	switch fn := call.Fun.(type) {
	case *ast.FuncLit:
	case *ast.SelectorExpr:
		// method value or package function: the receiver expression is left in place when it is a
		// plain variable/field chain (hoisting could copy a struct with a pointer-receiver method)
		if rw.pkgOf(fn.X) == "" && !simpleExpr(fn.X) {
			rw.skip("R2", n, "receiver is not a simple expression")
			return
		}
	case *ast.Ident:
		if _, isFunc := rw.p.TypesInfo.Uses[fn].(*types.Func); !isFunc {
			if _, isBuiltin := rw.p.TypesInfo.Uses[fn].(*types.Builtin); !isBuiltin {
				newCall.Fun = hoist(fn)
			}
		}
	default:
		newCall.Fun = hoist(call.Fun)
	}
	for _, a := range call.Args {
		newCall.Args = append(newCall.Args, hoist(a))
	}
	var stmts []ast.Stmt
	if len(lhs) > 0 {
		stmts = append(stmts, &ast.AssignStmt{Lhs: lhs, Tok: token.DEFINE, Rhs: rhs})
	}
	stmts = append(stmts, &ast.ExprStmt{X: &ast.CallExpr{Fun: vsimSel("Go"),
		Args: []ast.Expr{&ast.FuncLit{Type: &ast.FuncType{Params: &ast.FieldList{}}, Body: &ast.BlockStmt{List: []ast.Stmt{&ast.ExprStmt{X: newCall}}}}}}})
	c.Replace(&ast.BlockStmt{List: stmts})
	rw.usedVsim = true
	rw.counts["R2"]++
}

func simpleExpr(e ast.Expr) bool {
	switch x := e.(type) {
	case *ast.Ident:
		return true
	case *ast.SelectorExpr:
		return simpleExpr(x.X)
	case *ast.ParenExpr:
		return simpleExpr(x.X)
	case *ast.StarExpr:
		return simpleExpr(x.X)
	}
	return false
}

func (rw *rewriter) rewriteRange(c *astutil.Cursor, n *ast.RangeStmt) {
	t := rw.p.TypesInfo.TypeOf(n.X)
	if t == nil {
		return
	}
	mt, ok := t.Underlying().(*types.Map)
	if !ok {
		return
	}
	helper := ""
	switch kt := mt.Key().Underlying().(type) {
	case *types.Basic:
		if kt.Info()&(types.IsString|types.IsInteger|types.IsFloat) != 0 {
			helper = "SortedKeys"
		} else {
			helper = "SortedKeysBy"
		}
	case *types.Struct, *types.Array:
		helper = "SortedKeysBy"
	case *types.Pointer:
		// a pointer key has no order of its own, but one whose type has a String() method is
		// ordered by that text (fmt.Sprint calls it): e.g. keep-balance's *KeepMount
		if ms := types.NewMethodSet(mt.Key()); ms.Lookup(nil, "String") != nil {
			helper = "SortedKeysBy"
			rw.counts["R4-by-String"]++
		} else {
			rw.skip("R4", n, "map key type "+mt.Key().String()+" has no canonical order")
			return
		}
	default:
		rw.skip("R4", n, "map key type "+mt.Key().String()+" has no canonical order")
		return
	}
	if n.Tok == token.ASSIGN {
		rw.skip("R4", n, "assignment-form range")
		return
	}
	if !simpleExpr(n.X) {
		rw.skip("R4", n, "map operand is not a simple expression")
		return
	}
	var keyName ast.Expr = n.Key
	if keyName == nil {
		keyName = ast.NewIdent("_")
	}
	if id, ok := keyName.(*ast.Ident); ok && id.Name == "_" {
		if n.Value == nil || isBlank(n.Value) {
			// for range m / for _ = range m: only the count matters
			rw.counts["R4-countonly"]++
			return
		}
		keyName = ast.NewIdent(rw.newName())
	}
	var pre []ast.Stmt
	if n.Value != nil && !isBlank(n.Value) {
		okN := ast.NewIdent(rw.newName())
		pre = append(pre,
			&ast.AssignStmt{Lhs: []ast.Expr{n.Value, okN}, Tok: token.DEFINE, Rhs: []ast.Expr{&ast.IndexExpr{X: n.X, Index: keyName}}},
			&ast.IfStmt{Cond: &ast.UnaryExpr{Op: token.NOT, X: ast.NewIdent(okN.Name)}, Body: &ast.BlockStmt{List: []ast.Stmt{&ast.BranchStmt{Tok: token.CONTINUE}}}})
	}
	mexpr := n.X
	n.Body.List = append(pre, n.Body.List...)
	n.Key = ast.NewIdent("_")
	n.Value = keyName
	n.Tok = token.DEFINE
	n.X = &ast.CallExpr{Fun: vsimSel(helper), Args: []ast.Expr{mexpr}}
	rw.usedVsim = true
	rw.counts["R4"]++
}

func isBlank(e ast.Expr) bool {
	id, ok := e.(*ast.Ident)
	return ok && id.Name == "_"
}

// rewriteSelect: Go picks a random ready case; we make "first ready case in source
// order" the (legal) behaviour, so a replay takes the same branch.
func (rw *rewriter) rewriteSelect(c *astutil.Cursor, n *ast.SelectStmt) {
	var comm []*ast.CommClause
	var def *ast.CommClause
	for _, s := range n.Body.List {
		cc := s.(*ast.CommClause)
		if cc.Comm == nil {
			def = cc
		} else {
			comm = append(comm, cc)
		}
	}
	if len(comm) < 2 {
		return
	}
	if _, labeled := c.Parent().(*ast.LabeledStmt); labeled {
		rw.skip("R5", n, "labeled select")
		return
	}
	if c.Index() < 0 {
		rw.skip("R5", n, "select is not in a statement list")
		return
	}
	// bodies containing labels cannot be duplicated
	hasLabel := false
	ast.Inspect(n, func(x ast.Node) bool {
		if _, ok := x.(*ast.LabeledStmt); ok {
			hasLabel = true
		}
		return true
	})
	if hasLabel {
		rw.skip("R5", n, "label inside select")
		return
	}
	// hoist channel and value operands so they are evaluated exactly once, in source order
	var lhs, rhs []ast.Expr
	hoist := rw.hoister(&lhs, &rhs)
	for _, cc := range comm {
		switch s := cc.Comm.(type) {
		case *ast.SendStmt:
			s.Chan = hoist(s.Chan)
			s.Value = hoist(s.Value)
		case *ast.ExprStmt:
			u := s.X.(*ast.UnaryExpr)
			u.X = hoist(u.X)
		case *ast.AssignStmt:
			u := s.Rhs[0].(*ast.UnaryExpr)
			u.X = hoist(u.X)
		}
	}
	// innermost: the original select (with default if it had one)
	var inner ast.Stmt = n
	for i := len(comm) - 1; i >= 0; i-- {
		poll := &ast.SelectStmt{Body: &ast.BlockStmt{List: []ast.Stmt{
			&ast.CommClause{Comm: comm[i].Comm, Body: comm[i].Body},
			&ast.CommClause{Comm: nil, Body: []ast.Stmt{inner}},
		}}}
		inner = poll
	}
	_ = def
	var stmts []ast.Stmt
	if len(lhs) > 0 {
		stmts = append(stmts, &ast.AssignStmt{Lhs: lhs, Tok: token.DEFINE, Rhs: rhs})
		for _, l := range lhs {
			stmts = append(stmts, &ast.AssignStmt{Lhs: []ast.Expr{ast.NewIdent("_")}, Tok: token.ASSIGN, Rhs: []ast.Expr{ast.NewIdent(l.(*ast.Ident).Name)}})
		}
	}
	stmts = append(stmts, inner)
	c.Replace(&ast.BlockStmt{List: stmts})
	rw.counts["R5"]++
}
