#!/bin/bash
# MANIFEST.setup_cmd: build the driver and the rewriter from files on disk only (offline).
set -e
cd "$(dirname "$0")"
exec ./vcheck setup
